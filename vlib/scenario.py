"""
Scenario = JSON tree describing a scheduler tree, its jobs and their behaviour.
run_scenario() builds it with verification-side subclasses of the library's classes
(they only add __hash__, logging and a scripted body), runs it on a VLoop and returns a
Trace made of plain data.

sched := {kind:'sched', id, cls:'pure'|'nestable' (top only; nested are always nestable),
          window, timeout, sdt (shutdown_timeout), critical, forever, verbose,
          hkey, tkey, members:[...], edges:[[i,j]...] (j requires i), order:[perm],
          build:'ctor'|'add'|'update'|'kw'}
job   := {kind:'job', id, cls:'abstract'|'coroutine'|'print', d:int|'never'|'tick', k, outcome:
          'return'|'raise', critical, forever, c, sd, hkey, tkey}
"""

import asyncio
import contextlib
import io
import warnings

from . import vloop as _vloop
from .vloop import VLoop, Deadlock, Horizon

import asynciojobs
import asynciojobs.purescheduler as _ps
from asynciojobs import AbstractJob, Job, PrintJob, Scheduler, PureScheduler

warnings.filterwarnings('ignore', category=RuntimeWarning)
warnings.filterwarnings('ignore', category=DeprecationWarning)


class VExc(Exception):
    def __init__(self, who):
        super().__init__(who)
        self.who = who


class VBaseExc(BaseException):
    """not an Exception: e.g. an abort signal of the application"""


EXC_CLASSES = {'VExc': VExc, 'BaseExc': VBaseExc, 'TimeoutError': TimeoutError, 'KeyError': KeyError,
               'ValueError': ValueError, 'OSError': OSError, 'RuntimeError': RuntimeError,
               'LookupError': LookupError, 'AssertionError': AssertionError,
               'NotImplementedError': NotImplementedError,      # a RuntimeError
               'ConnectionResetError': ConnectionResetError,    # an OSError
               'InvalidStateError': asyncio.InvalidStateError,
               'IndexError': IndexError, 'AttributeError': AttributeError,
               'TypeError': TypeError, 'UnicodeEncodeError':
               lambda msg: UnicodeEncodeError('ascii', str(msg), 0, 1, 'x')}


class VResult:
    def __init__(self, who):
        self.who = who

    def __repr__(self):
        return "VResult(%s)" % self.who


class Recorder:
    def __init__(self, loop, sampling):
        self.loop = loop
        self.events = []
        self.samples = []
        self.sampling = sampling
        self.objs = {}
        self._tokens = {}
        self._names = {}
        self._name_count = {}
        self._keep = []

    def name(self, obj, token):
        """give a stable token to an object made by the harness (an exception raised by a
        job), whatever its class"""
        self._keep.append(obj)
        # (a body that runs twice in one recorded run makes two different objects)
        n = self._name_count[token] = self._name_count.get(token, 0) + 1
        self._names[id(obj)] = token if n == 1 else '%s#%d' % (token, n)

    def tok(self, obj):
        if obj is None or obj is True or obj is False:
            return obj
        if isinstance(obj, (int, str)) or (isinstance(obj, tuple) and all(
                isinstance(x, (int, str)) for x in obj)):
            return 'V:%r' % (obj,)          # immutable values: identity is not observable
        key = id(obj)
        if key in self._names:
            return self._names[key]
        if isinstance(obj, VExc):
            return 'X:%s' % (obj.who,)
        if isinstance(obj, VResult):
            return 'R:' + obj.who
        if key not in self._tokens:
            self._keep.append(obj)
            self._tokens[key] = 'O%d:%s' % (len(self._tokens), type(obj).__name__)
        return self._tokens[key]

    def ev(self, kind, who, **extra):
        self.events.append(dict(seq=len(self.events), t=self.loop.time(), kind=kind,
                                who=who, **extra))

    def state_of(self, obj):
        try:
            res = self.tok(obj.result())
        except ValueError:
            res = 'ValueError'
        except BaseException as exc:                    # anything else is reported as is
            res = 'EXC:' + type(exc).__name__
        try:
            rex = self.tok(obj.raised_exception())
        except BaseException as exc:
            rex = 'EXC:' + type(exc).__name__
        return dict(idle=obj.is_idle(), scheduled=obj.is_scheduled(),
                    running=obj.is_running(), done=obj.is_done(),
                    result=res, raised=rex)

    def sample(self, label='q'):
        snap = {}
        for ident, obj in self.objs.items():
            if isinstance(obj, AbstractJob):
                snap[ident] = self.state_of(obj)
        self.samples.append(dict(seq=len(self.events), t=self.loop.time(), label=label,
                                 jobs=snap))


REC = None      # the recorder of the run in progress


class _JobBehaviour:
    """scripted body and shutdown handler shared by the two atomic job classes"""

    def _v_init(self, spec):
        self.spec = spec
        self.v_id = spec['id']
        self.v_hkey = spec['hkey']
        self.v_tkey = spec['tkey']
        self.v_sd_calls = 0

    def __hash__(self):
        return self.v_hkey

    async def _v_body(self):
        rec = REC
        sp = self.spec
        who = self.v_id
        rec.ev('enter', who)
        try:
            d = sp['d']
            zap = sp.get('zap')
            if zap:
                # enumerated families only: after zap['at'] this job cancels the task of a
                # sibling that is still waiting for a window slot (its body never entered)
                await asyncio.sleep(zap['at'])
                victim = rec.objs.get(zap['who'])
                task = getattr(victim, '_task', None)
                if task is not None and not task.done() and not any(
                        e['kind'] == 'enter' and e['who'] == zap['who'] for e in rec.events):
                    rec.ev('zap', who, victim=zap['who'])
                    task.cancel()
            if d == 'never':
                await rec.loop.create_future()
            elif d == 'tick':
                while True:
                    await asyncio.sleep(sp.get('tickp', 1))
            elif d > 0:
                await asyncio.sleep(d)
            for _ in range(sp['k']):
                await asyncio.sleep(0)
            if sp.get('b'):
                # a synchronous (blocking) section: time passes without the loop running
                rec.loop._vt += sp['b']
        except asyncio.CancelledError:
            rec.ev('cancel-seen', who)
            answered = False
            try:
                if sp['c']:
                    await asyncio.sleep(sp['c'])
                if sp.get('cexc'):
                    # a job whose clean-up fails: it does end when cancelled, but by raising
                    exc = VExc(who)
                    rec.name(exc, 'X:' + who)
                    rec.ev('exit', who, how='cancelled-raise', obj=rec.tok(exc))
                    answered = True
                    raise exc
            finally:
                if not answered:
                    rec.ev('exit', who, how='cancelled')
            raise
        if sp['outcome'] == 'raise':
            exc = EXC_CLASSES[sp.get('exc', 'VExc')](sp.get('excmsg', who))
            rec.name(exc, 'X:' + who)
            if sp.get('late_critical'):
                # e.g. a job that decides its failure is fatal just before raising
                self.critical = True
            rec.ev('exit', who, how='raise', obj=rec.tok(exc))
            raise exc
        kind = sp.get('ret', 'sentinel')
        if kind == 'sentinel':
            res = VResult(who)
        elif kind in ('future-done', 'future-pending'):
            # e.g. the handle of something the job started: the result is that very object
            res = rec.loop.create_future()
            if kind == 'future-done':
                res.set_result(who)
            rec.name(res, 'R:' + who)
        elif kind == 'exc-object':
            res = ValueError(who)           # returned, not raised
            rec.name(res, 'R:' + who)
        elif kind in ('tuple2', 'tuple0'):
            res = (0, who) if kind == 'tuple2' else ()
        elif kind in ('list', 'dict'):
            res = [who] if kind == 'list' else {who: 1}
            rec.name(res, 'R:' + who)
        else:
            res = {'none': None, 'zero': 0, 'false': False, 'empty': ''}[kind]
        rec.ev('exit', who, how='return', obj=rec.tok(res))
        return res

    async def _v_shutdown(self):
        rec = REC
        who = self.v_id
        rec.ev('sd-enter', who)
        try:
            if self.spec['sd']:
                await asyncio.sleep(self.spec['sd'])
        except asyncio.CancelledError:
            rec.ev('sd-exit', who, how='cancelled')
            raise
        rec.ev('sd-exit', who, how='done')


class VJob(_JobBehaviour, AbstractJob):
    def __init__(self, spec, **extra):
        self._v_init(spec)
        if spec.get('late_attrs'):
            AbstractJob.__init__(self, label=spec.get('label', spec['id']), **extra)
            _late_attrs(self, spec)
        else:
            AbstractJob.__init__(self, label=spec.get('label', spec['id']),
                                 critical=_ctor_critical(spec), forever=_flag(spec, spec['forever']),
                                 **extra)

    async def co_run(self):
        return await self._v_body()

    async def co_shutdown(self):
        return await self._v_shutdown()


class VPrintJob(_JobBehaviour, PrintJob):
    """the library's own PrintJob (prints, then sleeps `d` seconds, returns None, honours a
    cancellation): its co_run() and co_shutdown() are used as they are, wrapped for the
    trace; the flags are assigned as attributes, its constructor has no keyword for them"""

    def __init__(self, spec, **extra):
        self._v_init(spec)
        PrintJob.__init__(self, spec['id'], 'runs', sleep=spec['d'] or None,
                          label=spec.get('label', spec['id']), **extra)
        self.critical = _ctor_critical(spec)
        self.forever = _flag(spec, spec['forever'])

    async def co_run(self):
        rec = REC
        who = self.v_id
        rec.ev('enter', who)
        try:
            value = await PrintJob.co_run(self)
        except asyncio.CancelledError:
            rec.ev('cancel-seen', who)
            rec.ev('exit', who, how='cancelled')
            raise
        if asyncio.current_task().cancelling():
            # a user's job may do as it pleases with a cancellation; this is the library's
            # own job class: a cancellation delivered in its sleep must end it as cancelled
            rec.ev('anomaly', who, what="PrintJob.co_run() was cancelled during its sleep "
                   "and returned normally: the job ends up done, with result None")
        rec.ev('exit', who, how='return', obj=rec.tok(value))
        return value

    async def co_shutdown(self):
        rec = REC
        who = self.v_id
        rec.ev('sd-enter', who)
        try:
            await PrintJob.co_shutdown(self)
        except asyncio.CancelledError:
            rec.ev('sd-exit', who, how='cancelled')
            raise
        rec.ev('sd-exit', who, how='done')


def job_class(sp):
    return {'coroutine': VCoJob, 'print': VPrintJob}.get(sp.get('cls'), VJob)


class VCoJob(_JobBehaviour, Job):
    """coroutine-based Job: the library's Job.co_run / Job.co_shutdown are used"""

    def __init__(self, spec, **extra):
        self._v_init(spec)
        self._v_corun = self._v_body()
        self._v_cosd = self._v_shutdown()
        if spec.get('late_attrs'):
            Job.__init__(self, self._v_corun, coshutdown=self._v_cosd,
                         label=spec.get('label', spec['id']), **extra)
            _late_attrs(self, spec)
        else:
            Job.__init__(self, self._v_corun, coshutdown=self._v_cosd,
                         label=spec.get('label', spec['id']),
                         critical=_ctor_critical(spec), forever=_flag(spec, spec['forever']),
                                 **extra)

    async def co_shutdown(self):
        # a coroutine object can be awaited once only: a second co_shutdown() on the same
        # job (which the oracles report) must not degenerate into a RuntimeError
        self.v_sd_calls += 1
        if self.v_sd_calls == 1:
            return await Job.co_shutdown(self)
        return await self._v_shutdown()

    def v_close(self):
        for coro in (self._v_corun, self._v_cosd):
            try:
                coro.close()
            except BaseException:
                pass


class _SchedBehaviour:
    def _v_init(self, spec):
        self.spec = spec
        self.v_id = spec['id']
        self.v_hkey = spec['hkey']
        self.v_tkey = spec['tkey']

    def __hash__(self):
        return self.v_hkey

    def _v_diag(self):
        try:
            return dict(fto=bool(self.failed_time_out()), fc=bool(self.failed_critical()),
                        why=self.why())
        except BaseException as exc:                    # pragma: no cover
            return dict(fto=None, fc=None, why='EXC:' + type(exc).__name__)

    def co_run(self):
        # the library's co_run() is CALLED when ours is called (as a user's `s.co_run()`
        # would) and awaited later: what it does at call time must not matter
        return self._v_run(super().co_run())

    async def _v_run(self, inner):
        rec = REC
        who = self.v_id
        rec.ev('run-begin', who)
        try:
            value = await inner
        except asyncio.CancelledError:
            rec.ev('run-exit', who, how='cancelled')
            raise
        except BaseException as exc:
            rec.ev('run-exit', who, how='raise', obj=rec.tok(exc),
                   etype=type(exc).__name__, **self._v_diag())
            raise
        rec.ev('run-exit', who, how='return', obj=rec.tok(value), **self._v_diag())
        return value

    async def co_shutdown(self):
        rec = REC
        who = self.v_id
        rec.ev('cosd-begin', who)
        try:
            value = await super().co_shutdown()
        except asyncio.CancelledError:
            rec.ev('cosd-exit', who, how='cancelled')
            raise
        except BaseException as exc:
            rec.ev('cosd-exit', who, how='raise', etype=type(exc).__name__)
            raise
        rec.ev('cosd-exit', who, how='return', obj=rec.tok(value))
        return value


_WATCH = [None, 0]


def _watch():
    # one Watch shared by every scheduler of the tree that asks for one (the usual pattern)
    if _WATCH[0] is None:
        from asynciojobs import Watch
        _WATCH[0] = Watch()
        if _WATCH[1]:
            # a Watch created when the program started, long ago
            from datetime import timedelta
            _WATCH[0].start -= timedelta(seconds=_WATCH[1])
    return _WATCH[0]


def _decoy_kwargs(spec):
    """constructor values of a scheduler whose real settings are assigned afterwards: none at
    all, tight ones or loose ones (a deterministic function of the scenario)"""
    which = (spec['hkey'] + spec['tkey'] + len(spec['members'])) % 3
    if which == 0:
        return {}
    if which == 1:
        return dict(jobs_window=1, timeout=0.001, shutdown_timeout=0.001,
                    verbose=not spec['verbose'])
    return dict(jobs_window=64, timeout=10**6, shutdown_timeout=None,
                verbose=not spec['verbose'])


def _sched_kwargs(spec):
    if spec.get('late_attrs'):
        return {}
    if spec.get('watch'):
        return dict(jobs_window=spec['window'], timeout=spec['timeout'],
                    shutdown_timeout=spec['sdt'], verbose=spec['verbose'], watch=_watch())
    return dict(jobs_window=spec['window'], timeout=spec['timeout'],
                shutdown_timeout=spec['sdt'], verbose=spec['verbose'])


def _flag(spec, value):
    """flags are used by their truth value: 1 / 0 / None are as good as True / False"""
    if spec.get('flagform') == 'alt':
        return 1 if value else (None if spec['hkey'] % 2 else 0)
    return value


def _ctor_critical(spec):
    return _flag(spec, False if spec.get('late_critical') else spec['critical'])


def _late_attrs(obj, spec):
    """jobs_window, timeout, shutdown_timeout, verbose (and the flags of a job) are plain
    attributes that may be assigned after construction (CHANGELOG 0.5: 'attributes of the
    scheduler'); scenarios with late_attrs install them that way"""
    if not spec.get('late_attrs'):
        return
    if spec['kind'] == 'sched':
        obj.jobs_window = spec['window']
        obj.timeout = spec['timeout']
        obj.shutdown_timeout = spec['sdt']
        obj.verbose = spec['verbose']
        if spec.get('watch'):
            obj.watch = _watch()
    if hasattr(obj, 'critical'):
        obj.critical = _ctor_critical(spec) if spec['kind'] == 'job' \
            else _flag(spec, spec['critical'])
        obj.forever = _flag(spec, spec['forever'])


class VScheduler(_SchedBehaviour, Scheduler):
    def __init__(self, spec, *jobs, **extra):
        self._v_init(spec)
        if spec.get('late_attrs'):
            # built with other values, which the assignments below replace before the run
            Scheduler.__init__(self, *jobs, label=spec.get('label', spec['id']),
                               **_decoy_kwargs(spec), **extra)
        else:
            Scheduler.__init__(self, *jobs, critical=_flag(spec, spec['critical']),
                               forever=_flag(spec, spec['forever']),
                               label=spec.get('label', spec['id']), **_sched_kwargs(spec),
                               **extra)
        _late_attrs(self, spec)


class VPureScheduler(_SchedBehaviour, PureScheduler):
    def __init__(self, spec, *jobs):
        self._v_init(spec)
        if spec.get('late_attrs'):
            PureScheduler.__init__(self, *jobs, **_decoy_kwargs(spec))
        else:
            PureScheduler.__init__(self, *jobs, **_sched_kwargs(spec))
        _late_attrs(self, spec)


def build_latefill(spec, registry):
    """another legitimate construction order: every scheduler is created empty, the
    requirements are wired with Sequence(job, required=<bare object>) while the nested
    schedulers are still empty, and the members are added last"""
    from asynciojobs import Sequence

    def create(sp, top):
        if sp['kind'] == 'job':
            obj = job_class(sp)(sp)
        else:
            cls = VPureScheduler if (top and sp.get('cls') == 'pure') else VScheduler
            obj = cls(sp)
            for m in sp['members']:
                create(m, False)
        registry[sp['id']] = obj
        return obj

    def wire(sp):
        if sp['kind'] != 'sched':
            return
        mem = sp['members']
        for i, j in sp['edges']:
            Sequence(registry[mem[j]['id']], required=registry[mem[i]['id']])
        for m in mem:
            wire(m)

    def fill(sp):
        if sp['kind'] != 'sched':
            return
        mem = sp['members']
        ordered = [registry[mem[i]['id']] for i in sp.get('order', range(len(mem)))]
        registry[sp['id']].update(ordered)
        for m in mem:
            fill(m)

    top = create(spec, True)
    wire(spec)
    fill(spec)
    return top


def build_kw(spec, registry):
    """top-down construction: every scheduler exists before its members, which register
    themselves through the documented scheduler= keyword of the job constructors"""
    def create(sp, parent, top):
        extra = {} if parent is None else dict(scheduler=parent)
        if sp['kind'] == 'job':
            obj = job_class(sp)(sp, **extra)
        else:
            if top and sp.get('cls') == 'pure':
                obj = VPureScheduler(sp)
            else:
                obj = VScheduler(sp, **extra)
            mem = sp['members']
            for i in sp.get('order', range(len(mem))):
                create(mem[i], obj, False)
        registry[sp['id']] = obj
        return obj

    def wire(sp):
        if sp['kind'] != 'sched':
            return
        mem = sp['members']
        for i, j in sp['edges']:
            registry[mem[j]['id']].requires(registry[mem[i]['id']])
        for m in mem:
            wire(m)
    top = create(spec, None, True)
    wire(spec)
    return top


def build(spec, registry, top=True, prelude=None):
    """instantiate the tree; registry maps id -> object"""
    if top and spec.get('latefill'):
        return build_latefill(spec, registry)
    if top and spec.get('build') == 'scheduler=' and not spec.get('prelude'):
        return build_kw(spec, registry)
    if top and spec.get('prelude'):
        prelude = []
    objs = []
    for m in spec['members']:
        if m['kind'] == 'sched':
            obj = build(m, registry, top=False, prelude=prelude)
        else:
            obj = job_class(m)(m)
            registry[m['id']] = obj
        objs.append(obj)
    decoys = []
    if prelude is not None:
        # the graph is first installed with some requirements pointing at the wrong job,
        # queried, then re-wired to the scenario's edges (link counts unchanged): the run
        # must depend on the requirements as they are when it starts, not on anything
        # computed earlier
        present = {(i, j) for i, j in spec['edges']}
        n_mem = len(objs)
        free = [(w, k) for k in range(n_mem) for w in range(k) if (w, k) not in present]
        for i, j in spec['edges']:
            if free and (i + j) % 2 == 0:
                # the replacement link may sit anywhere (lower -> higher index keeps the
                # graph acyclic): entry jobs, successors and in-degrees all differ from the
                # final graph, the number of links does not
                w, k = free.pop((i * 7 + j) % len(free))
                decoys.append((j, i, k, w))
    rewired = {(j, i) for j, i, k, w in decoys}
    for i, j in spec['edges']:
        if (j, i) not in rewired:
            objs[j].requires(objs[i])
    for j, i, k, w in decoys:
        objs[k].requires(objs[w])
    cls = VPureScheduler if (top and spec.get('cls') == 'pure') else VScheduler
    ordered = [objs[i] for i in spec.get('order', range(len(objs)))]
    how = spec.get('build', 'ctor')
    if how == 'ctor':
        sched = cls(spec, *ordered)
    else:
        sched = cls(spec)
        if how == 'add':
            for obj in ordered:
                sched.add(obj)
        elif how == 'update':
            sched.update(ordered)
        else:
            # one by one, half of them through update([x])
            for n, obj in enumerate(ordered):
                if n % 2:
                    sched.update([obj])
                else:
                    sched.add(obj)
    registry[spec['id']] = sched
    if prelude is not None:
        prelude.append((sched, objs, decoys))
    if top and prelude is not None:
        for sch, _, _ in prelude:
            for call in (sch.list, sch.check_cycles, lambda o=sch: list(o.exit_jobs()),
                         lambda o=sch: list(o.successors_downstream(*o.jobs)),
                         sch.dot_format):
                try:
                    call()
                except Exception:
                    pass
        if spec.get('rerun'):
            # the re-wiring happens between the first run and the judged one
            registry['__rewire__'] = prelude
        else:
            if spec.get('entry') == 'co_run-called-early':
                # `coro = s.co_run()` obtained before the graph gets its final shape
                registry['__coro__'] = sched.co_run()
            rewire(prelude)
    elif top and spec.get('entry') == 'co_run-called-early':
        registry['__coro__'] = sched.co_run()
    return sched


def rewire(prelude):
    for sch, members, dec in prelude:
        for j, i, k, w in dec:
            members[k].requires(members[w], remove=True)
            members[j].requires(members[i])


def iter_specs(spec, parent=None, depth=0):
    yield spec, parent, depth
    for m in spec.get('members', ()):
        yield from iter_specs(m, spec, depth + 1)


def span_of(spec):
    total = 0.0
    for sp, _, _ in iter_specs(spec):
        if sp['kind'] == 'job':
            d = sp['d']
            total += (d if isinstance(d, (int, float)) else 1) + sp['c'] + sp['sd'] \
                + (sp.get('b') or 0)
        else:
            total += (sp['timeout'] or 0) + (sp['sdt'] or 0)
    return total + 10


class _FakeTime:
    """time.time() as seen by the scheduler module: the loop clock, plus a minute amount that
    grows with every reading within one instant (two successive readings of a real clock are
    never equal).  The loop rounds timer dates to the microsecond, so instants stay exact."""

    def __init__(self, loop):
        self._loop = loop
        self._last = None
        self._n = 0

    def time(self):
        now = self._loop.time()
        if now != self._last:
            self._last = now
            self._n = 0
        self._n += 1
        return now + self._n * 1e-10


class Trace:
    """plain-data result of one run"""

    def __init__(self):
        self.events = []
        self.samples = []
        self.outcome = None         # dict(how='return'|'raise'|'deadlock'|'horizon', ...)
        self.n_end = 0              # number of events when run() was over
        self.t_end = None
        self.unfinished = []        # tasks not done when run() was over
        self.late_events = []       # events produced while the loop ran on
        self.final = {}             # state_of() every job at the very end
        self.explicit_shutdown = None
        self.loop_exceptions = []
        self.stdout = ''
        self.rerun = False          # the recorded run is the second run of the same objects

    def digest(self):
        import hashlib
        import json
        blob = json.dumps([[e['seq'], e['t'], e['kind'], e['who'], e.get('how')]
                           for e in self.events], sort_keys=True)
        return hashlib.sha1(blob.encode()).hexdigest()[:12]


def run_scenario(spec, sampling=False, run_on=True, explicit_shutdown=False,
                 keep_stdout=False):
    """run the scenario once; pure function of `spec` (and of the library's code)"""
    global REC
    span = span_of(spec)
    loop = VLoop(horizon=2 * span + 10)
    loop.default_tkey = spec.get('tkey', 0)
    asyncio.set_event_loop(loop)
    rec = Recorder(loop, sampling)
    REC = rec
    saved_time = _ps.time
    _ps.time = _FakeTime(loop)
    saved_new_loop = asyncio.new_event_loop
    # whoever asks for a fresh loop during the run gets the virtual one
    asyncio.new_event_loop = lambda: loop
    trace = Trace()
    out = io.StringIO()
    registry = {}
    _WATCH[0] = None
    _WATCH[1] = spec.get('watch_age', 0)
    try:
        with contextlib.redirect_stdout(out):
            top = build(spec, registry)
        pending_rewire = registry.pop('__rewire__', None)
        early_coro = registry.pop('__coro__', None)
        rec.objs = registry

        def on_created(task):
            if task.v_owner is not None:
                rec.ev('task-created', task.v_owner.v_id, tkind=task.v_kind)
        loop.on_task_created = on_created

        def on_cancel(task):
            who = task.v_owner.v_id if task.v_owner is not None else None
            rec.ev('cancel-req', who, tkind=task.v_kind)
        loop.on_cancel_request = on_cancel
        inspect = spec.get('inspect')

        def on_quiescent():
            if inspect:
                # a monitoring job could do this at any time: the read-only inspection
                # methods must not disturb a run in progress
                with contextlib.redirect_stdout(io.StringIO()):
                    for obj in registry.values():
                        if isinstance(obj, PureScheduler):
                            for call in (obj.list, obj.check_cycles, obj.stats, obj.why,
                                         lambda o=obj: repr(o), obj.dot_format, obj.debrief,
                                         lambda o=obj: list(o.iterate_jobs()),
                                         lambda o=obj: list(o.exit_jobs()),
                                         lambda o=obj: list(o.entry_jobs()),
                                         lambda o=obj: list(o.topological_order())):
                                try:
                                    call()
                                except Exception:
                                    pass
                        else:
                            repr(obj)
            if sampling:
                rec.sample()
        if sampling or inspect:
            loop.quiescent_cb = on_quiescent
        if sampling == 'every-iteration':
            # the inspection API is also read between any two batches of loop callbacks
            loop.iteration_cb = lambda: rec.sample('i')

        if spec.get('rerun'):
            # the same scheduler objects are run a first time to completion; the run that
            # is recorded and judged is the SECOND one ("in any run of any scheduler")
            # first run: unthrottled and without deadlines (and with the decoy requirements
            # if any); the scenario's own settings are installed afterwards, as attributes
            real = {}
            # members of the first run only (`ghosts`): added with add() now, taken away
            # with remove() before the judged run - which must not remember them
            ghosts = []
            for sp, _, _ in iter_specs(spec):
                if sp['kind'] == 'sched':
                    for g in sp.get('ghosts', ()):
                        ghost = VJob(g)
                        registry[sp['id']].add(ghost)
                        ghosts.append((registry[sp['id']], ghost))
            # rerun_first: 'free' (default) = first run unthrottled and without deadlines;
            # 'w1' = one job at a time, no deadlines; 'asis' = the scenario's own settings
            # (with a long-lasting ghost, a first run that times out)
            first_mode = spec.get('rerun_first', 'free')
            for ident, obj in registry.items():
                if isinstance(obj, PureScheduler):
                    real[ident] = (obj.jobs_window, obj.timeout)
                    if first_mode != 'asis':
                        obj.jobs_window = 1 if first_mode == 'w1' else None
                        obj.timeout = None
            with contextlib.redirect_stdout(out):
                try:
                    top.run()
                    first_ok = True
                except (Deadlock, Horizon):
                    first_ok = False
                except BaseException:
                    first_ok = True
                if first_ok:
                    try:
                        loop.run_until_complete(asyncio.sleep(span))
                    except (Deadlock, Horizon):
                        first_ok = False
            for ident, (window, timeout) in real.items():
                registry[ident].jobs_window = window
                registry[ident].timeout = timeout
            for sched, ghost in ghosts:
                sched.remove(ghost)
            if pending_rewire is not None:
                with contextlib.redirect_stdout(out):
                    rewire(pending_rewire)
            if first_ok and not [t for t in loop.tasks if not t.done()]:
                trace.rerun = True
                rec.events = []
                rec.samples = []
                rec._name_count = {}
                loop.tasks = []
                loop.horizon = loop.time() + 2 * span + 10
            else:
                # cannot start over cleanly: judge a fresh single run instead
                plain = dict(spec)
                plain['rerun'] = False
                _ps.time = saved_time
                asyncio.new_event_loop = saved_new_loop
                loop.quiescent_cb = None
                loop.on_cancel_request = None
                loop.on_task_created = None
                for task in loop.tasks:
                    if not task.done():
                        task.cancel()
                        task._log_destroy_pending = False
                for obj in registry.values():
                    if isinstance(obj, VCoJob):
                        obj.v_close()
                registry = {}
                try:
                    loop.close()
                except BaseException:
                    pass
                return run_scenario(plain, sampling, run_on, explicit_shutdown, keep_stdout)

        with contextlib.redirect_stdout(out):
            try:
                entry = spec.get('entry', 'run')
                if entry == 'run-no-current-loop':
                    # e.g. after the program has used asyncio.run(): run() must make do
                    asyncio.set_event_loop(None)
                    value = top.run()
                elif entry == 'co_run-called-early' and early_coro is not None \
                        and not getattr(trace, 'rerun', False):
                    value = loop.run_until_complete(early_coro)
                elif entry == 'orchestrate':
                    value = top.orchestrate()
                elif entry == 'co_run':
                    value = loop.run_until_complete(top.co_run())
                else:
                    value = top.run()
                trace.outcome = dict(how='return', obj=rec.tok(value))
            except Deadlock:
                trace.outcome = dict(how='deadlock')
            except Horizon:
                trace.outcome = dict(how='horizon')
            except BaseException as exc:
                trace.outcome = dict(how='raise', obj=rec.tok(exc),
                                     etype=type(exc).__name__, msg=str(exc)[:200])
        trace.t_end = loop.time()
        trace.n_end = len(rec.events)
        if sampling:
            rec.sample('end')
        trace.unfinished = [
            dict(who=(t.v_owner.v_id if t.v_owner is not None else None), tkind=t.v_kind)
            for t in loop.tasks if not t.done()]
        terminated = trace.outcome['how'] in ('return', 'raise')
        loop.quiescent_cb = None
        loop.iteration_cb = None
        if run_on and terminated:
            with contextlib.redirect_stdout(out):
                try:
                    loop.run_until_complete(asyncio.sleep(span))
                except (Deadlock, Horizon):
                    pass
            trace.late_events = rec.events[trace.n_end:]
        n_late = len(rec.events)
        if explicit_shutdown and terminated:
            with contextlib.redirect_stdout(out):
                try:
                    value = top.shutdown()
                    how = dict(how='return', obj=rec.tok(value))
                except (Deadlock, Horizon) as exc:
                    how = dict(how=type(exc).__name__.lower())
                except BaseException as exc:
                    how = dict(how='raise', etype=type(exc).__name__)
            how['events'] = rec.events[n_late:]
            trace.explicit_shutdown = how
        for ident, obj in registry.items():
            if isinstance(obj, AbstractJob):
                trace.final[ident] = rec.state_of(obj)
            if isinstance(obj, PureScheduler):
                trace.final.setdefault(ident, {})['diag'] = obj._v_diag()
    finally:
        _ps.time = saved_time
        asyncio.new_event_loop = saved_new_loop
        asyncio.set_event_loop(loop)
        # silence and dispose of whatever is left
        loop.quiescent_cb = None
        loop.iteration_cb = None
        loop.on_cancel_request = None
        loop.on_task_created = None
        loop.horizon = float('inf')
        for _ in range(4):
            left = [t for t in loop.tasks if not t.done()]
            if not left:
                break
            for task in left:
                task.cancel()
            try:
                with contextlib.redirect_stdout(out):
                    loop.run_until_complete(asyncio.wait(left, timeout=span))
            except BaseException:
                break
        left = [t for t in loop.tasks if not t.done()]
        for task in left:
            task._log_destroy_pending = False
        for obj in registry.values():
            if isinstance(obj, VCoJob):
                obj.v_close()
        trace.loop_exceptions = loop.exc_contexts
        loop.on_cancel_request = None
        loop.on_task_created = None
        try:
            loop.close()
        except BaseException:                           # pragma: no cover
            pass
        asyncio.set_event_loop(None)
        REC = None
    trace.events = rec.events[:trace.n_end]
    trace.samples = rec.samples
    if keep_stdout:
        trace.stdout = out.getvalue()
    return trace
