"""
Phase chaining: for a scheduler run that ended by itself, derive from the trace

    causes  success | critical | timeout        (what happened first; several on a tie)
    tau     the stop instant: first critical raise / T_abs / last non-forever exit
    t_tidy  instant at which every direct member's task is over
    t_end   t_tidy + bounded duration of the shutdown phase

and check the clauses shared by C05 (critical abort), C08 (timeout), C09 (forever jobs)
and C13 (shutdown).  Every clause is an (in)equality between instants read in the trace;
no duration is predicted except the shutdown phase, which is a function of the scenario
(handler durations and shutdown_timeout values) and of which schedulers had already shut
down.  Findings are returned as (clause, message) pairs; each property keeps the clauses it
states and prefixes its own signature.
"""

from .trace import NORMAL


def shutdown_duration(ix, member, before_seq):
    """time the co_shutdown() of `member` takes when called at sequence point before_seq"""
    if member['kind'] == 'job':
        return member['sd']
    # a nested scheduler that has already shut down returns at once
    for ev in ix.evs(member['id'], 'cosd-begin'):
        if ev['seq'] < before_seq:
            return 0
    durs = [shutdown_duration(ix, m, before_seq) for m in member['members']]
    longest = max(durs, default=0)
    if member['sdt'] is None:
        return longest
    return min(member['sdt'], longest)


def analyse(ix, sid):
    """-> None if the run of sid was cancelled from outside, never began or is outside the
    statements, else dict(causes, tau, t_tidy, findings=[(clause, message)], facts...).

    The stop instant is derived from WHAT HAPPENED, not from what the run reported (that is
    C04's business): tau = the earliest of (first raise of a critical direct member, begin +
    timeout, exit of the last non-forever member when all of them finished normally);
    `causes` = the candidates that fall on tau (several on an exact tie: the consequences are
    the same for all three)."""
    sp = ix.specs[sid]
    mem = sp['members']
    begin = ix.enter(sid)
    verdict = ix.verdict(sid)
    if begin is None or not mem or verdict['kind'] == 'cancelled':
        return None
    if ix.cancel_reqs(sid):
        return None                     # being cancelled from outside, not over yet
    if not ix.finite_members(sid):
        return None                     # no non-forever member: stop instant unspecified
    rex = verdict['ev']
    findings = []
    cands = {}
    crit = ix.critical_raises(sid)
    if crit:
        cands['critical'] = crit[0]['t']
    tabs = ix.t_abs(sid)
    if tabs is not None:
        cands['timeout'] = tabs
    if ix.finite_members(sid):
        last = ix.last_finite_exit(sid)
        if last is not None:
            cands['success'] = last['t']
    if not cands:
        return None                     # nothing says when this run should stop
    tau = min(cands.values())
    causes = sorted(k for k, v in cands.items() if v == tau)
    cause = '/'.join(causes)
    if rex is None:
        if ix.terminated():
            return None
        # the whole run is stuck (deadlock / horizon) although this scheduler had every
        # reason to stop at tau
        if ix.trace.t_end is not None and ix.trace.t_end >= tau:
            return dict(causes=causes, cause=cause, tau=tau, t_tidy=None, rex=None,
                        begin=begin, cosd=[], t_end_expected=None, stragglers=None,
                        running_at_tau=0, waiting_at_tau=0,
                        findings=[('run-never-ends',
                                   "scheduler %s (%s at t=%s): its run never ends (%s at "
                                   "t=%s)" % (sid, cause, tau, ix.trace.outcome['how'],
                                             ix.trace.t_end))])
        return None

    def bad(clause, msg):
        findings.append((clause, "scheduler %s (%s at t=%s): %s" % (sid, cause, tau, msg)))

    # ---- (i) nothing starts after tau; (ii) unfinished members are cancelled at tau
    exits_t = [tau]
    running_at_tau = 0
    waiting_at_tau = 0
    for m in mem:
        mid = m['id']
        created = ix.created(mid)
        enter = ix.enter(mid)
        ex = ix.exit(mid)
        if ex is not None:
            exits_t.append(ex['t'])
        for ev in created:
            if ev['t'] > tau:
                bad('start-after-stop', "a task for %s is created at t=%s" % (mid, ev['t']))
        if enter is not None and enter['t'] > tau:
            bad('start-after-stop', "%s starts at t=%s" % (mid, enter['t']))
        normal = ex is not None and ex['how'] in NORMAL
        if normal:
            if ex['t'] > tau:
                bad('waited-for-normal-completion',
                    "%s was left to finish normally at t=%s" % (mid, ex['t']))
            continue
        if not created:
            continue
        if enter is not None:
            running_at_tau += 1
        else:
            waiting_at_tau += 1
        reqs = ix.cancel_reqs(mid)
        if not reqs:
            bad('not-cancelled', "%s (%s) is never cancelled" %
                (mid, 'running' if enter is not None else 'queued for a window slot'))
        elif reqs[0]['t'] != tau:
            bad('cancelled-at-wrong-instant', "%s is cancelled at t=%s" % (mid, reqs[0]['t']))
        if m['kind'] == 'sched' and reqs and ex is not None and ex['how'] == 'cancelled':
            # a nested scheduler that is cancelled is over when its own jobs (and the
            # shutdown handlers it was running, if it was in that phase) are: it has nothing
            # else to wait for ("ends as soon as those cancellations complete")
            inner = [reqs[0]['t']]
            for mm in m['members']:
                e2 = ix.exit(mm['id'])
                if e2 is not None and e2['seq'] < ex['seq']:
                    inner.append(e2['t'])
                begun = [ev for ev in ix.evs(mm['id'], 'sd-enter') if ev['seq'] < reqs[0]['seq']]
                if begun:       # handlers that were running when the cancellation came
                    inner.extend(ev['t'] for ev in ix.evs(mm['id'], 'sd-exit')
                                 if begun[0]['seq'] < ev['seq'] < ex['seq'])
            if ex['t'] != max(inner):
                bad('cancelled-nested-scheduler-lingers',
                    "nested scheduler %s, cancelled at t=%s, is over at t=%s only whereas the "
                    "last of its own jobs / handlers was over at t=%s"
                    % (mid, reqs[0]['t'], ex['t'], max(inner)))
    t_tidy = max(exits_t)

    # ---- (iii) the shutdown phase begins when the last direct member is over
    cosd = [e for e in ix.evs(sid, 'cosd-begin') if begin['seq'] < e['seq'] < rex['seq']]
    t_end_expected = None
    stragglers_expected = None
    if getattr(ix.trace, 'rerun', False):
        # second run of the same objects: whether the shutdown handlers are called again is
        # not specified (a scheduler "broadcasts only once"): only the main phase is judged
        pass
    elif not cosd:
        bad('no-shutdown-phase', "co_shutdown() is not called before the run ends")
    else:
        sd0 = cosd[0]
        if sd0['t'] != t_tidy:
            bad('shutdown-phase-begins-at-wrong-instant',
                "shutdown phase begins at t=%s whereas the last direct job was over at t=%s"
                % (sd0['t'], t_tidy))
        durs = {m['id']: shutdown_duration(ix, m, sd0['seq']) for m in mem}
        longest = max(durs.values())
        sdt = sp['sdt']
        length = longest if sdt is None else min(sdt, longest)
        t_end_expected = sd0['t'] + length
        if rex['t'] != t_end_expected:
            bad('run-ends-at-wrong-instant',
                "run ends at t=%s, expected t=%s (shutdown phase began at %s, handlers take "
                "%s, shutdown_timeout=%s)" % (rex['t'], t_end_expected, sd0['t'],
                                              sorted(durs.values()), sdt))
        if sdt is not None:
            stragglers_expected = dict(
                must=[mid for mid, d in durs.items() if d > sdt],
                may=[mid for mid, d in durs.items() if d == sdt])
        else:
            stragglers_expected = dict(must=[], may=[])
    return dict(causes=causes, cause=cause, tau=tau, t_tidy=t_tidy, rex=rex, begin=begin,
                cosd=cosd,
                t_end_expected=t_end_expected, stragglers=stragglers_expected,
                running_at_tau=running_at_tau, waiting_at_tau=waiting_at_tau,
                findings=findings)


def kept_results(ix, sid, trace):
    """jobs that finished normally keep their results after the run: (clause, msg) list"""
    out = []
    for m in ix.members(sid):
        ex = ix.normal_exit(m['id'])
        if ex is None:
            continue
        fin = trace.final.get(m['id'])
        if fin is None:
            continue
        if not fin['done']:
            out.append(('result-lost', "%s finished (%s) at t=%s but is_done() is False after "
                        "the run" % (m['id'], ex['how'], ex['t'])))
        elif ex['how'] == 'return' and fin['result'] != ex['obj']:
            out.append(('result-lost', "%s returned %s but result() gives %s after the run"
                        % (m['id'], ex['obj'], fin['result'])))
        elif ex['how'] == 'raise' and fin['raised'] != ex['obj']:
            out.append(('result-lost', "%s raised %s but raised_exception() gives %s after "
                        "the run" % (m['id'], ex['obj'], fin['raised'])))
    return out
