"""C01 - a job never starts before every one of its requirements has finished"""

import itertools

from ..campaign import Result
from .. import strategies as S
from ._rt import S_iter, run_case, shape_labels, RT_ASSUMPTIONS, context

ID = 'C01'
LEVEL = 'exploration'
DESIGN_REF = 'DESIGN.md section 4, C01'
RULE = ("cases: scheduler trees (depth <= 3, <= 16 jobs, <= 5 members per scheduler, occasionally up to 9) with generated durations, extra "
        "zero-time yields, outcomes, flags, windows, timeouts, hash keys (set iteration "
        "order), timer tie keys and insertion orders, run on the virtual-time loop; thorough "
        "adds the complete sweep of all 64 DAGs on 4 indexed nodes x durations {0,1,2}^4 x "
        "yields {0,1}^4 x window {None,1,2} x 6 hash-key patterns. non-trivial: a job with "
        ">= 2 requirements entered after requirements that ended at >= 2 distinct instants, "
        "or in the same instant with different numbers of extra yields, or an entered edge "
        "with a nested scheduler at either end; distinct = distinct scenario digest")
ASSUMPTIONS = RT_ASSUMPTIONS

PROFILE = S.GENERAL.but(p_block=6, p_rerun=8, p_edge=45, p_nested=25, p_raise=22, p_forever=8, p_wild=10,
                        ks=((0, 3), (1, 2), (2, 2), (3, 1)))


def budget(tier):
    return dict(examples=6000 if tier == 'quick' else 150000)


def strategy(tier):
    return S.scenarios(PROFILE)


def oracle(ix, res, prefix='C01', focus=None):
    nontrivial = False
    for sp in ix.scheds():
        sid = sp['id']
        begin = ix.enter(sid)
        req = ix.requirements(sid)
        for m in sp['members']:
            mid = m['id']
            enters = ix.enters(mid)
            if not enters:
                continue
            first = enters[0]
            if focus is not None and not focus(sid, mid):
                continue
            if begin is None or begin['seq'] > first['seq']:
                res.fail(prefix + ':member-before-scheduler-begin',
                         "%s entered although the run of its scheduler %s had not begun"
                         % (mid, sid), context(ix))
            exits = []
            for r in req[mid]:
                ex = ix.normal_exit(r)
                if ex is None or ex['seq'] > first['seq']:
                    res.fail(prefix + ':start-before-requirement',
                             "%s entered at seq %d (t=%s) before its requirement %s had "
                             "finished (%s)" % (mid, first['seq'], first['t'], r,
                                                'exit at seq %d t=%s' % (ex['seq'], ex['t'])
                                                if ex else 'no normal exit'),
                             context(ix))
                else:
                    exits.append((ex, r))
                    if ix.is_sched(r):
                        # "finished means that the nested scheduler's whole run is over": none
                        # of its jobs, at any depth, is still executing
                        alive = [d['id'] for d, _, _ in S_iter(ix.specs[r])
                                 if d['kind'] == 'job'
                                 and any(e['seq'] < first['seq'] for e in ix.enters(d['id']))
                                 and not any(e['seq'] < first['seq'] for e in ix.exits(d['id']))]
                        if alive:
                            res.fail(prefix + ':start-before-nested-run-is-over',
                                     "%s entered at seq %d (t=%s) while %s, inside its "
                                     "requirement %s (run-exit at seq %d: %s), is still "
                                     "executing" % (mid, first['seq'], first['t'], alive, r,
                                                    ex['seq'], ex.get('how')), context(ix))
            if len(req[mid]) >= 2 and len(exits) == len(req[mid]):
                times = {ex['t'] for ex, _ in exits}
                if len(times) >= 2:
                    nontrivial = True
                    res.label('join:distinct-instants')
                else:
                    ks = {ix.specs[r].get('k') for _, r in exits}
                    if len(ks) >= 2:
                        nontrivial = True
                        res.label('join:same-instant-different-iterations')
                    else:
                        res.label('join:same-instant')
            if req[mid] and (m['kind'] == 'sched'
                             or any(ix.is_sched(r) for r in req[mid])):
                nontrivial = True
                res.label('edge-with-nested-scheduler')
    res.nontrivial = nontrivial


def evaluate_one(case):
    res = Result()
    trace, ix = run_case(case, run_on=False)
    shape_labels(case, trace, res)
    oracle(ix, res)
    res.sample = dict(outcome=trace.outcome, events=len(trace.events),
                      trace_digest=trace.digest())
    return res


# ---------------------------------------------------------------- complete sweep
_PAIRS = [(i, j) for j in range(4) for i in range(j)]
_HKEYS = [(0, 1, 2, 3), (3, 2, 1, 0), (1, 3, 0, 2), (2, 0, 3, 1), (0, 0, 0, 0), (5, 1, 5, 1)]


def _job(n, d, k, hkey):
    return dict(kind='job', id='j%d' % (n + 1), cls='abstract', d=d, k=k, outcome='return',
                critical=False, forever=False, c=0, sd=0, hkey=hkey, tkey=0)


def _sweep_chunk(mask):
    edges = [list(p) for b, p in enumerate(_PAIRS) if mask >> b & 1]
    for ds in itertools.product((0, 1, 2), repeat=4):
        for ks in itertools.product((0, 1), repeat=4):
            for window in (None, 1, 2):
                for hk in _HKEYS:
                    yield dict(kind='sched', id='s0', cls='nestable', window=window,
                               timeout=None, sdt=1, critical=False, forever=False,
                               verbose=False, hkey=0, tkey=0,
                               members=[_job(n, ds[n], ks[n], hk[n]) for n in range(4)],
                               edges=edges, order=[0, 1, 2, 3], build='ctor')


def sweeps(tier):
    if tier != 'thorough':
        return [S.ladder_sweep(['plain']), S.requirement_endings_sweep()]
    return [S.ladder_sweep(['plain']), S.requirement_endings_sweep(), ('all 4-node DAGs x durations x yields x windows x hash patterns', 64,
             _sweep_chunk)]

TECHNIQUE = ("property-based testing (Hypothesis scenario generator, virtual-time asyncio "
             "loop, trace oracle over the global event order: every job entry is compared with "
             "the exits of its requirements, and with the bodies still executing inside a "
             "required nested scheduler) + enumerated family of nested requirements whose job "
             "raises (every exception class, message or none, verbose, critical, window) + "
             "complete enumeration of all 4-node DAGs x durations x windows in the thorough "
             "tier")
LEVEL_TEXT = ("generated search: every generated run is observed event by event and each job "
              "entry is compared with the exits of all its requirements; no counter-example "
              "within the bounds is evidence, not proof")
LEVEL_NOTE = ("trusts the virtual-time loop (CPython's BaseEventLoop with a fake selector), "
              "the verification-side job subclasses and the trace recorder; bounded trees")


from ._rt import with_variants                     # noqa: E402
evaluate = with_variants(evaluate_one)
