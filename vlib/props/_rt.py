"""helpers shared by the run-time property modules (C01-C14)"""

from ..campaign import Result
from ..scenario import run_scenario
from ..trace import Index, brief
from .. import strategies as S

RT_ASSUMPTIONS = [
    "virtual-time event loop: durations, timeouts and cancellation delays are integers or "
    "half-integers; time.time() of the scheduler module is the loop clock",
    "jobs honour cancellation (re-raise CancelledError, possibly after a delay); "
    "co_shutdown handlers do not raise",
    "pinned interpreter (CPython 3.12.1 asyncio); trees of depth <= 3 and <= ~14 jobs",
    "set iteration order and same-instant timer order are generated inputs "
    "(hash keys / tie keys), not all interleavings of an arbitrary event loop",
]


def run_case(case, **kw):
    trace = run_scenario(case, **kw)
    return trace, Index(case, trace)


def shape_labels(case, trace, res):
    depth = 0
    windows = False
    njobs = 0
    for sp, _, d in S_iter(case):
        depth = max(depth, d if sp['kind'] == 'sched' else d - 1)
        if sp['kind'] == 'sched' and sp['window']:
            windows = True
        if sp['kind'] == 'job':
            njobs += 1
    res.label('outcome:' + trace.outcome['how'], 'depth:%d' % depth,
              'windowed' if windows else 'unwindowed')
    return depth, windows, njobs


def S_iter(case):
    from ..scenario import iter_specs
    return iter_specs(case)


def context(ix, around=None, limit=80):
    return brief(ix.events, limit)
