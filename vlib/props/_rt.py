"""helpers shared by the run-time property modules (C01-C14)"""

from ..campaign import Result
from ..scenario import run_scenario
from ..trace import Index, brief
from .. import strategies as S

RT_ASSUMPTIONS = [
    "virtual-time event loop: durations, timeouts and cancellation delays are integers or "
    "half-integers; time.time() of the scheduler module is the loop clock",
    "jobs honour cancellation (re-raise CancelledError, possibly after a delay); "
    "co_shutdown handlers do not raise",
    "pinned interpreter (CPython 3.12.1 asyncio); trees of depth <= 3 and <= ~16 jobs (<= 5 members per scheduler, occasionally up to 9)",
    "set iteration order and same-instant timer order are generated inputs "
    "(hash keys / tie keys), not all interleavings of an arbitrary event loop",
    "generated dimensions beyond the tree itself (dim:* classes in coverage.classes): odd "
    "labels, builtin exception classes, odd return values, attributes assigned after "
    "construction, a Watch, inspection calls during the run, graph queried and re-wired "
    "before the run, schedulers filled after wiring, second run of the same objects, flat "
    "schedulers of 12..300 members",
]


def run_case(case, **kw):
    trace = run_scenario(case, **kw)
    return trace, Index(case, trace)


def shape_labels(case, trace, res):
    depth = 0
    windows = False
    njobs = 0
    for sp, _, d in S_iter(case):
        depth = max(depth, d if sp['kind'] == 'sched' else d - 1)
        if sp['kind'] == 'sched' and sp['window']:
            windows = True
        if sp['kind'] == 'job':
            njobs += 1
    res.label('outcome:' + trace.outcome['how'], 'depth:%d' % depth,
              'windowed' if windows else 'unwindowed')
    for flag in ('inspect', 'prelude', 'latefill'):
        if case.get(flag):
            res.label('dim:' + flag)
    if getattr(trace, 'rerun', False):
        res.label('dim:second-run-of-the-same-objects')
    if len(case.get('members', ())) >= 12:
        res.label('dim:wide(%s)' % ('>=257' if len(case['members']) >= 257 else
                                    '>=33' if len(case['members']) >= 33 else '12..32'))
    dims = set()
    for sp, _, _ in S_iter(case):
        for key in ('late_attrs', 'watch', 'label', 'exc', 'ret'):
            if sp.get(key) not in (None, False):
                dims.add(key)
        if sp.get('cls') == 'print':
            dims.add('PrintJob')
        if sp.get('ghosts') and getattr(trace, 'rerun', False):
            dims.add('members-of-the-first-run-only')
    for key in sorted(dims):
        res.label('dim:' + key)
    return depth, windows, njobs


def library_job_anomalies(trace, res, prop_id):
    """a job class of the library itself (PrintJob) that does not end as cancelled when it
    is cancelled: the scheduler 'cancels' it and it is reported done"""
    for e in trace.events:
        if e['kind'] == 'anomaly':
            res.fail('%s:library-job-not-cancelled' % prop_id,
                     "%s at t=%s: %s" % (e['who'], e['t'], e['what']))
            return


def S_iter(case):
    from ..scenario import iter_specs
    return iter_specs(case)


def context(ix, around=None, limit=80):
    return brief(ix.events, limit)


STOP_CLAUSES = ('verdict', 'run-never-ends', 'start-after-stop', 'waited-for-normal-completion', 'not-cancelled',
                'cancelled-at-wrong-instant', 'cancelled-nested-scheduler-lingers',
                'no-shutdown-phase',
                'shutdown-phase-begins-at-wrong-instant', 'run-ends-at-wrong-instant')


def phase_oracle(prop_id, cause, ix, trace, res, clauses=STOP_CLAUSES, results=True,
                 focus=None):
    """apply the phase-chain clauses to every scheduler run that ended with `cause`;
    returns the list of analyses (for non-triviality rules)"""
    from .. import phases
    out = []
    for sp in ix.scheds():
        if focus is not None and not focus(sp['id'], None):
            continue
        an = phases.analyse(ix, sp['id'])
        if an is None or cause not in an['causes']:
            continue
        out.append((sp, an))
        # the run must report the cause that the trace shows (exact when there is no tie)
        if an['causes'] == [cause] and an['rex'] is not None:
            reported = ix.verdict(sp['id'])['kind']
            if reported != cause and 'verdict' in clauses:
                res.fail('%s:not-the-%s-verdict' % (prop_id, cause),
                         "scheduler %s: what happened is %s at t=%s but the run reports %s "
                         "(run-exit %s)" % (sp['id'], cause, an['tau'], reported,
                                            {k: v for k, v in an['rex'].items()
                                             if k in ('how', 'obj', 'fto', 'fc', 'why',
                                                      'etype')}), context(ix))
        for clause, msg in an['findings']:
            if clause in clauses:
                res.fail('%s:%s' % (prop_id, clause), msg, context(ix))
        if results:
            for clause, msg in phases.kept_results(ix, sp['id'], trace):
                res.fail('%s:%s' % (prop_id, clause), "scheduler %s: %s" % (sp['id'], msg),
                         context(ix))
    return out


def rekeyed(case, v):
    """the same scenario under another set-iteration order, same-instant timer order and
    insertion order (a deterministic function of the scenario and of v)"""
    new = S.clone(case)
    n = 0
    for sp, _, _ in S_iter(new):
        n += 1
        sp['hkey'] = (sp['hkey'] * 5 + 3 * v + n) % 16
        sp['tkey'] = (sp['tkey'] + v + n) % 4
        if sp['kind'] == 'sched' and sp.get('order'):
            k = (v + n) % len(sp['order'])
            sp['order'] = sp['order'][k:] + sp['order'][:k]
    return new


def with_variants(evaluate_one, n=3):
    """Drawing a scenario through Hypothesis costs several times more than running it: every
    generated scenario is therefore also run under n other orders.  A violation found on a
    variant is reported with the variant itself as the replay."""
    def evaluate(case):
        res = evaluate_one(case)
        if res.violations or 'kind' not in case or len(case.get('members', ())) > 40:
            return res
        for v in range(1, n + 1):
            variant = rekeyed(case, v)
            other = evaluate_one(variant)
            res.executions += other.executions
            res.nontrivial = res.nontrivial or other.nontrivial
            if other.violations:
                res.violations = other.violations
                res.replay_case = other.replay_case or variant
                break
        res.label('variants:%d' % n)
        return res
    return evaluate
