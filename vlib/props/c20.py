"""C20 - DOT export and listing describe the scheduler tree faithfully"""

import os
import re
import subprocess
import tempfile
from collections import Counter

from hypothesis import strategies as st

from ..campaign import Result, case_digest
from ..structural import SJob, SSched, SPure, quiet, STRUCT_ASSUMPTIONS, sparse_edges
from .. import dotparse

ID = 'C20'
LEVEL = 'exploration'
DESIGN_REF = 'DESIGN.md section 4, C20'
TECHNIQUE = ("property-based testing: generated labelled scheduler trees; dot_format() is "
             "parsed by an independent DOT-subset parser and compared with the tree (nodes, "
             "cluster nesting, edge multiset with lhead/ltail, labels after unquoting, "
             "styles); a sample of the outputs is also fed to the dot binary (second syntax "
             "oracle); stdout of list() is parsed and compared with the tree")
LEVEL_TEXT = ("generated search with a structural round-trip oracle (tree -> DOT text -> parsed "
              "graph -> compared with the tree)")
LEVEL_NOTE = ("trusts the verification-side DOT parser (vlib/dotparse.py, ~170 lines) and, when "
              "/usr/bin/dot exists, graphviz's own parser on 1 case in 20; labels contain no "
              "backslash (premise of the property)")
RULE = ("cases: trees up to depth 3 and <= 12 jobs, a DAG per level with nested schedulers at "
        "both ends of edges, empty nested schedulers, labels over an alphabet of quotes, "
        "newlines, DOT punctuation, spaces and non-ASCII, graph_label() overrides, all "
        "critical/forever combinations; in 1 case in 5 the tree is drawn, pruned with bypass_and_remove / keep_only, and drawn again. non-trivial: depth >= 2 with an edge touching a "
        "cluster, or a label that needs quoting; distinct = distinct case digest")
ASSUMPTIONS = STRUCT_ASSUMPTIONS

DOT = '/usr/bin/dot' if os.path.exists('/usr/bin/dot') else None
ALPHABET = ['a', 'b', 'Z', '0', ' ', ' ', '"', '"', '\n', '{', '}', '[', ']', ';', '=', ',',
            '-', '>', '<', ':', '#', '/', '*', 'é', 'ß', '中', '→', "'", '|', '.', '_']

label_st = st.one_of(st.none(), st.sampled_from(['job', 'a b', 'x', '<lambda>', '<b>bold</b>',
                                                 '<a<b>', '<>', '"quoted"', '{rec|ord}',
                                                 'trailing space ', '->', '--', 'digraph',
                                                 'node', '#comment', '/*c*/', '%d', '{}']),
                     st.lists(st.sampled_from(ALPHABET), min_size=1, max_size=8)
                     .map(''.join))


def budget(tier):
    return dict(examples=3000 if tier == 'quick' else 80000)


@st.composite
def node(draw, depth, budget):
    is_sched = depth < 3 and budget[0] > 1 and (depth == 0 or draw(st.integers(0, 3)) == 0)
    common = dict(label=draw(label_st),
                  glabel=draw(label_st) if draw(st.integers(0, 4)) == 0 else None,
                  critical=draw(st.booleans()), forever=draw(st.integers(0, 3)) == 0,
                  hkey=draw(st.integers(0, 15)))
    if not is_sched:
        budget[0] -= 1
        return dict(kind='job', **common)
    n = draw(st.integers(1, 5))
    if depth and draw(st.integers(0, 24)) == 0:
        n = 0
    members = [draw(node(depth + 1, budget)) for _ in range(n)]
    density = draw(st.sampled_from([15, 35, 60]))
    edges = [[a, b] for b in range(n) for a in range(b) if draw(st.integers(0, 99)) < density]
    return dict(kind='sched', members=members, edges=edges,
                order=list(draw(st.permutations(list(range(n))))), **common)


@st.composite
def trees(draw):
    if draw(st.integers(0, 59)) == 0:
        # a wide flat scheduler: ids are 3 digits wide
        # ids change width at powers of ten
        n = draw(st.sampled_from([9, 10, 11, 99, 100, 101, 130, 999, 1000, 1001]))
        seed = draw(st.integers(1, 2 ** 16))
        members = [dict(kind='job', label=draw(label_st) if i < 3 else 'w%d' % i, glabel=None,
                        critical=bool((i + seed) % 3 == 0), forever=bool((i + seed) % 7 == 0),
                        hkey=(i * 7 + seed) % 16) for i in range(n)]
        return dict(kind='sched', members=members,
                    edges=[e for e in sparse_edges(n, seed) if e[1] - e[0] < 40],
                    order=sorted(range(n), key=lambda i: (i * 7919 + seed) % 1009),
                    label=None, glabel=None, critical=False, forever=False, hkey=0,
                    cls=draw(st.sampled_from(['pure', 'nestable'])))
    budget = [12]
    top = draw(node(0, budget))
    top['cls'] = draw(st.sampled_from(['pure', 'nestable']))
    if draw(st.integers(0, 4)) == 0:
        # the tree is drawn, pruned, and drawn again
        top['history'] = draw(st.lists(st.tuples(st.integers(0, 6),
                                                 st.sampled_from(['bypass', 'keep']),
                                                 st.integers(0, 255)),
                                       min_size=1, max_size=2))
    return top


def strategy(tier):
    return trees()


class GJob(SJob):
    def graph_label(self):
        return self.v_glabel


class GSched(SSched):
    def graph_label(self):
        return self.v_glabel


def build(spec, path, registry, top=False):
    if spec['kind'] == 'job':
        cls = GJob if spec['glabel'] is not None else SJob
        obj = cls(path, hkey=spec['hkey'], label=spec['label'], critical=spec['critical'],
                  forever=spec['forever'])
        obj.v_glabel = spec['glabel']
        registry[path] = (obj, spec)
        return obj
    kids = [build(m, '%s.%d' % (path, i), registry) for i, m in enumerate(spec['members'])]
    for a, b in spec['edges']:
        kids[b].requires(kids[a])
    ordered = [kids[i] for i in spec['order']]
    if top and spec.get('cls') == 'pure':
        obj = SPure(path, *ordered)
    else:
        cls = GSched if spec['glabel'] is not None else SSched
        obj = cls(path, *ordered, hkey=spec['hkey'], label=spec['label'],
                  critical=spec['critical'], forever=spec['forever'])
        obj.v_glabel = spec['glabel']
    registry[path] = (obj, spec)
    return obj


def has_empty_on_edge(spec):
    """an empty nested scheduler has or is a requirement, or is the middle entry / exit of a
    scheduler that has or is one (dot_format() has no node to attach the edge to)"""
    def empty_like(sp):
        # no atomic job can be reached as entry (resp. exit): conservatively any emptiness
        if sp['kind'] == 'job':
            return False
        if not sp['members']:
            return True
        return any(empty_like(m) for m in sp['members'])

    def rec(sp):
        if sp['kind'] == 'job':
            return False
        touched = {i for e in sp['edges'] for i in e}
        for i, m in enumerate(sp['members']):
            if m['kind'] == 'sched' and i in touched and empty_like(m):
                return True
            if rec(m):
                return True
        return False
    return rec(spec)


def needs_quoting(text):
    return text is not None and re.fullmatch(r'[A-Za-z_][A-Za-z_0-9]*', text) is None


def check_style(attrs, spec, atomic, where, res):
    style = set(filter(None, attrs.get('style', '').split(',')))
    if ('rounded' in style) != atomic:
        res.fail('C20:style-rounded', "%s: style=%r, atomic=%s" % (where, attrs.get('style'),
                                                                   atomic))
    if ('dashed' in style) != bool(spec['forever']):
        res.fail('C20:style-forever', "%s: style=%r but forever=%s"
                 % (where, attrs.get('style'), spec['forever']))
    if spec['critical']:
        if attrs.get('color') != 'red' or attrs.get('penwidth') != '2':
            res.fail('C20:style-critical', "%s: critical but color=%r penwidth=%r"
                     % (where, attrs.get('color'), attrs.get('penwidth')))
    else:
        if 'color' in attrs or attrs.get('penwidth') != '0.5':
            res.fail('C20:style-critical', "%s: not critical but color=%r penwidth=%r"
                     % (where, attrs.get('color'), attrs.get('penwidth')))
    if attrs.get('shape') != 'box':
        res.fail('C20:style-shape', "%s: shape=%r" % (where, attrs.get('shape')))


def expected_label(obj, spec):
    if spec['glabel'] is not None:
        return spec['glabel'], True
    text = spec['label'] if spec['label'] is not None else 'NOLABEL'
    return text, False


def adopt(obj, path, spec_of, registry):
    """describe the LIVE tree (after surgery): same shape of records as build() makes"""
    spec = dict(spec_of[id(obj)])
    if spec['kind'] == 'sched':
        members = list(obj.jobs)
        index = {id(m): i for i, m in enumerate(members)}
        spec['members'] = []
        for i, m in enumerate(members):
            spec['members'].append(adopt(m, '%s.%d' % (path, i), spec_of, registry))
        spec['edges'] = [[index[id(r)], i] for i, m in enumerate(members)
                         for r in m.required if id(r) in index]
        spec['order'] = list(range(len(members)))
    registry[path] = (obj, spec)
    return spec


def apply_history(case, top, registry, res):
    """draw the tree, prune some scheduler with the surgery methods, return the registry of
    the tree as it is now (the drawing made afterwards must describe THAT tree)"""
    with quiet():
        try:
            top.dot_format()
        except Exception:
            pass
    spec_of = {id(obj): spec for obj, spec in registry.values()}
    scheds = [obj for path, (obj, spec) in sorted(registry.items()) if spec['kind'] == 'sched']
    for pick, op, arg in case['history']:
        sched = scheds[pick % len(scheds)]
        members = sorted(sched.jobs, key=lambda j: j.v_id)
        if not members:
            continue
        with quiet():
            if op == 'bypass':
                sched.bypass_and_remove(members[arg % len(members)])
            else:
                keep = [m for k, m in enumerate(members) if arg >> (k % 8) & 1]
                sched.keep_only(keep)
        res.label('history:draw-prune-redraw')
    new_registry = {}
    new_case = adopt(top, 'r', spec_of, new_registry)
    return new_case, new_registry


def evaluate(case):
    res = Result()
    registry = {}
    with quiet():
        top = build(case, 'r', registry, top=True)
    if case.get('history'):
        case, registry = apply_history(case, top, registry, res)
    on_edge = has_empty_on_edge(case)
    try:
        with quiet():
            text = top.dot_format()
    except ValueError as exc:
        if on_edge and 'found' in str(exc):
            res.fail('C20:dot_format-raises:empty-nested-scheduler-on-an-edge',
                     "dot_format() raised ValueError(%s): an empty nested scheduler has or is "
                     "a requirement" % exc)
        else:
            res.fail('C20:dot_format-raises', "dot_format() raised %r" % (exc,))
        return res
    except Exception as exc:
        res.fail('C20:dot_format-raises', "dot_format() raised %r" % (exc,))
        return res
    if on_edge:
        res.label('empty-nested-on-edge-but-rendered')
    try:
        graph = dotparse.parse(text)
    except dotparse.DotError as exc:
        res.fail('C20:invalid-dot', "dot_format() is not valid DOT: %s\n%s" % (exc, text))
        return res
    nontrivial = False
    # ---- expected structure
    ids = {}
    for path, (obj, spec) in registry.items():
        if obj is top:
            continue
        if obj._sched_id is None:
            res.fail('C20:no-id', "%s has no id" % path)
            return res
        ids[path] = obj._sched_id
    if len(set(ids.values())) != len(ids):
        res.fail('C20:ids-not-unique', "ids %s" % sorted(ids.values()))
        return res
    by_obj = {id(obj): path for path, (obj, spec) in registry.items()}

    def cluster_of(path):
        return 'cluster_' + ids[path]

    def walk(path, g, depth):
        nonlocal nontrivial
        obj, spec = registry[path]
        want_nodes = {}
        want_clusters = {}
        for i, m in enumerate(spec['members']):
            p = '%s.%d' % (path, i)
            if m['kind'] == 'job':
                want_nodes[ids[p]] = p
            else:
                want_clusters[cluster_of(p)] = p
        got_nodes = dict(g.nodes)
        if set(got_nodes) != set(want_nodes) or any(c != 1 for c in g.node_count.values()):
            res.fail('C20:nodes', "scheduler %s: node statements %s (counts %s), expected one "
                     "for each of %s" % (path, sorted(got_nodes), dict(g.node_count),
                                         sorted(want_nodes)))
            return
        got_clusters = [s.name for s in g.subgraphs]
        if sorted(got_clusters) != sorted(want_clusters):
            res.fail('C20:clusters', "scheduler %s: subgraphs %s, expected %s"
                     % (path, sorted(map(str, got_clusters)), sorted(want_clusters)))
            return
        for nid, p in want_nodes.items():
            o, sp = registry[p]
            attrs = got_nodes[nid]
            check_style(attrs, sp, True, 'node %s (%s)' % (nid, p), res)
            text, exact = expected_label(o, sp)
            got = attrs.get('label')
            want = text if exact else '%s: %s' % (nid, text)
            if got != want:
                res.fail('C20:label', "node %s: label %r, expected %r" % (nid, got, want))
            if needs_quoting(text):
                nontrivial = True
                res.label('label-needs-quoting')
        for sub in g.subgraphs:
            p = want_clusters[sub.name]
            o, sp = registry[p]
            check_style(sub.attrs, sp, False, 'cluster %s (%s)' % (sub.name, p), res)
            text, exact = expected_label(o, sp)
            want = text if exact else '%s: %s' % (ids[p], text)
            if sub.attrs.get('label') != want:
                res.fail('C20:label', "cluster %s: label %r, expected %r"
                         % (sub.name, sub.attrs.get('label'), want))
            walk(p, sub, depth + 1)

    walk('r', graph, 0)
    if res.violations:
        return res
    # ---- edges: one per requirement, right endpoints, nothing else
    def atoms_under(path):
        obj, spec = registry[path]
        if spec['kind'] == 'job':
            return {ids[path]}
        out = set()
        for i in range(len(spec['members'])):
            out |= atoms_under('%s.%d' % (path, i))
        return out

    want = []
    for path, (obj, spec) in registry.items():
        if spec['kind'] != 'sched':
            continue
        for a, b in spec['edges']:
            pa, pb = '%s.%d' % (path, a), '%s.%d' % (path, b)
            sa, sb = registry[pa][1], registry[pb][1]
            want.append((pa, pb, sa['kind'] == 'sched', sb['kind'] == 'sched'))
            if sa['kind'] == 'sched' or sb['kind'] == 'sched':
                nontrivial = True
                res.label('edge-touching-a-cluster')
    got = [e for g in graph.all_graphs() for e in g.edges]
    unmatched = list(got)
    for pa, pb, ca, cb in want:
        found = None
        for e in unmatched:
            tail, head, attrs = e
            ok_tail = (tail in atoms_under(pa)) if ca else tail == ids[pa]
            ok_head = (head in atoms_under(pb)) if cb else head == ids[pb]
            ok_lt = attrs.get('ltail') == (cluster_of(pa) if ca else None)
            ok_lh = attrs.get('lhead') == (cluster_of(pb) if cb else None)
            if ok_tail and ok_head and ok_lt and ok_lh:
                found = e
                break
        if found is None:
            res.fail('C20:missing-edge', "no edge for requirement %s (%s) -> %s (%s); edges "
                     "are %s" % (pa, ids[pa], pb, ids[pb], got))
            return res
        unmatched.remove(found)
    if unmatched:
        res.fail('C20:extra-edge', "edges without a requirement: %s" % (unmatched,))
        return res
    # ---- second syntax oracle: graphviz itself, on a sample
    if DOT and int(case_digest(case), 16) % 20 == 0:
        with tempfile.NamedTemporaryFile('w', suffix='.dot', delete=False,
                                         encoding='utf-8') as f:
            f.write(text)
        try:
            p = subprocess.run([DOT, '-Tcanon', f.name], capture_output=True, timeout=60)
            res.label('checked-with-dot-binary')
            if p.returncode != 0:
                res.fail('C20:dot-binary-rejects', "dot -Tcanon exit %d: %s\n%s"
                         % (p.returncode, p.stderr.decode('utf-8', 'replace')[:300], text))
        finally:
            os.unlink(f.name)
    # ---- list()
    with quiet() as out:
        try:
            top.list()
        except Exception as exc:
            res.fail('C20:list-raises', "list() raised %r" % (exc,))
            return res
    listing = out.getvalue().splitlines()
    all_ids = {o._sched_id for o, _ in registry.values() if o is not top}
    for path, (obj, spec) in registry.items():
        if obj is top:
            continue
        sid = obj._sched_id
        lines = [l for l in listing if l.startswith(sid + ' ') and '--end--' not in l]
        if len(lines) != 1:
            res.fail('C20:list-line-count', "%d lines for %s (id %s) in the output of list()"
                     % (len(lines), path, sid))
            return res
        for r in obj.required:
            r_lines = [k for k, l in enumerate(listing)
                       if l.startswith(r._sched_id + ' ') and '--end--' not in l]
            if r_lines and r_lines[0] > listing.index(lines[0]):
                res.fail('C20:list-order', "%s (id %s) is listed before its requirement (id %s)"
                         % (path, sid, r._sched_id))
                return res
            if int(r._sched_id) >= int(sid):
                res.fail('C20:list-not-topological', "%s has id %s but its requirement has "
                         "id %s" % (path, sid, r._sched_id))
                return res
        # a label may contain newlines: the entry runs up to the next line that starts
        # with an id
        at = listing.index(lines[0])
        entry = [lines[0]]
        for l in listing[at + 1:]:
            head = l.split(' ', 1)[0]
            if head in all_ids:
                break
            entry.append(l)
        entry = '\n'.join(entry)
        m = re.search(r'requires=\{([0-9, ]*)\}', entry)
        shown = sorted(m.group(1).split(', ')) if m else []
        if shown != sorted(r._sched_id for r in obj.required):
            res.fail('C20:list-requirements', "entry %r, requirements are %s"
                     % (entry, sorted(r._sched_id for r in obj.required)))
            return res
    depth = max(p.count('.') for p in registry)
    res.label('depth:%d' % depth)
    res.nontrivial = nontrivial
    return res
