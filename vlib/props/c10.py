"""C10 - a nested scheduler behaves as one job; nesting is transparent"""

from hypothesis import strategies as st

from ..campaign import Result
from .. import strategies as S
from ..scenario import iter_specs
from ._rt import run_case, shape_labels, RT_ASSUMPTIONS, context, phase_oracle
from . import c01, c04, c07, c12

ID = 'C10'
LEVEL = 'exploration'
DESIGN_REF = 'DESIGN.md section 4, C10'
TECHNIQUE = ("property-based testing: (a,b) nesting-heavy generated trees on the virtual-time "
             "loop, the C01/C07/C12 clauses, the verdict/exception-identity oracle of C04 and "
             "the abort / expiry phase chains of C05/C08 being applied wherever a nested "
             "scheduler is involved; (c) metamorphic twin: the tree is flattened into one "
             "scheduler and both runs are compared job by job")
LEVEL_TEXT = ("generated search; the flattening relation is compared exactly in virtual time up "
              "to the first abort instant of either run")
LEVEL_NOTE = ("trusts the trace recorder; the flattening twin is restricted to what the "
              "statement can guarantee: critical nested schedulers without window, timeout, "
              "forever members or empty nested schedulers, instantaneous shutdown handlers "
              "inside nested schedulers, no window anywhere, comparison strictly before the "
              "first critical raise / expiry")
RULE = ("cases: 'general' = trees with depth >= 2 favoured and all combinations of critical "
        "flags along chains of nested schedulers; 'twin' = flattenable trees, run nested and "
        "flattened. non-trivial: a failure (timeout or critical) inside a nested scheduler at "
        "depth >= 2, or a twin whose tree has a nested scheduler of >= 2 jobs that both "
        "requires and is required; distinct = distinct case digest")
ASSUMPTIONS = RT_ASSUMPTIONS

GENERAL = S.GENERAL.but(p_nested=38, force_nested=70, max_members=4, p_raise=24, p_critical=45,
                        p_sched_critical=55, p_edge=40, p_forever=8, p_wild=20,
                        windows=((None, 5), (0, 1), (1, 1), (2, 2), (3, 1)))
TWIN = S.GENERAL.but(p_nested=42, force_nested=90, max_members=4, p_raise=15, p_critical=35, p_edge=45,
                     p_forever=0, p_wild=0, allow_empty=False, p_sched_forever=0,
                     windows=((None, 1),),
                     timeouts=((None, 10), (2.5, 1), (4.5, 1), (6, 1)))


def budget(tier):
    return dict(examples=7000 if tier == 'quick' else 150000)


def strategy(tier):
    return st.one_of(
        st.fixed_dictionaries(dict(mode=st.just('general'), scenario=S.scenarios(GENERAL))),
        st.fixed_dictionaries(dict(mode=st.just('twin'), scenario=S.scenarios(TWIN))))


# ------------------------------------------------------------------ (a) and (b)
def general_oracle(case, trace, ix, res):
    def involves_nested(sid, mid):
        if ix.parent[sid] is not None:
            return True
        if mid is None:
            return False
        if ix.is_sched(mid):
            return True
        return any(ix.is_sched(r) for r in ix.requirements(sid)[mid])

    def member_is_nested(sid, mid):
        return mid is not None and (ix.is_sched(mid) or any(
            ix.is_sched(r) for r in ix.requirements(sid)[mid]))

    c01.oracle(ix, res, prefix='C10:as-one-job', focus=member_is_nested)
    c12.oracle(case, trace, ix, res, prefix='C10:as-one-job', focus=member_is_nested)
    c07.oracle(case, trace, ix, res, prefix='C10:window-scope',
               focus=lambda sid, mid: ix.is_sched(mid) or ix.parent[sid] is not None)
    nested = lambda sid, mid: ix.parent[sid] is not None        # noqa: E731
    has_critical_nested = lambda sid, mid: any(                 # noqa: E731
        m['kind'] == 'sched' and m['critical'] for m in ix.members(sid))
    # verdict of nested runs, identity of the bubbling exception at every level
    c04.oracle(case, trace, ix, res, prefix='C10:verdict',
               focus=lambda sid, mid: nested(sid, mid) or has_critical_nested(sid, mid))
    # the parent of a failing critical nested scheduler aborts as for a raising critical job
    phase_oracle('C10:parent-abort', 'critical', ix, trace, res, focus=has_critical_nested)
    # the timeout of a nested scheduler is measured from its own begin
    phase_oracle('C10:nested-timeout', 'timeout', ix, trace, res, focus=nested)
    hit = False
    for sp in ix.scheds():
        sid = sp['id']
        if ix.parent[sid] is None:
            continue
        v = ix.verdict(sid)
        fin = trace.final.get(sid, {})
        if v['kind'] in ('timeout', 'critical'):
            if ix.depth[sid] >= 1:
                hit = True
                res.label('nested-failure:%s:%s' % (
                    v['kind'], 'critical' if sp['critical'] else 'contained'))
            if not sp['critical']:
                # contained: the parent reads False as its result
                if not fin.get('done') or fin.get('result') is not False or fin.get('raised'):
                    res.fail('C10:contained-failure-not-readable',
                             "non-critical nested scheduler %s failed (%s) but afterwards "
                             "is_done()=%s result()=%s raised_exception()=%s"
                             % (sid, v['kind'], fin.get('done'), fin.get('result'),
                                fin.get('raised')), context(ix))
                if v['ev']['how'] != 'return':
                    res.fail('C10:non-critical-nested-raised',
                             "non-critical nested scheduler %s raised %s" %
                             (sid, v['ev'].get('etype')), context(ix))
        elif v['kind'] == 'success':
            if not fin.get('done') or fin.get('result') is not True:
                res.fail('C10:nested-result-not-readable',
                         "nested scheduler %s succeeded but is_done()=%s result()=%s"
                         % (sid, fin.get('done'), fin.get('result')), context(ix))
    # the very exception object comes out of the top-level run()
    return hit


# ------------------------------------------------------------------ (c) flattening
def make_flattenable(spec):
    new = S.clone(spec)
    for sp, parent, _ in iter_specs(new):
        if sp['kind'] == 'sched':
            sp['window'] = None
            if parent is not None:
                sp['timeout'] = None
                sp['critical'] = True
                sp['forever'] = False
        else:
            sp['forever'] = False
            if sp['d'] in ('never', 'tick'):
                sp['d'] = 1
            if parent is not new:
                sp['sd'] = 0
    return new


def flatten(spec):
    jobs = []
    edges = set()

    def rec(sp):
        info = {}
        for m in sp['members']:
            if m['kind'] == 'job':
                jobs.append(m)
                info[m['id']] = ([m['id']], [m['id']])
            else:
                info[m['id']] = rec(m)
        mem = sp['members']
        req = {m['id']: [] for m in mem}
        for i, j in sp['edges']:
            req[mem[j]['id']].append(mem[i]['id'])
        required = {r for rs in req.values() for r in rs}
        entries, exits = [], []
        for m in mem:
            ent, ex = info[m['id']]
            for r in req[m['id']]:
                for a in info[r][1]:
                    for b in ent:
                        edges.add((a, b))
            if not req[m['id']]:
                entries += ent
            if m['id'] not in required:
                exits += ex
        return entries, exits
    rec(spec)
    # topological index order (edges must go from lower to higher member index)
    order = []
    remaining = [j['id'] for j in jobs]
    placed = set()
    while remaining:
        free = [x for x in remaining if all(a in placed for a, b in edges if b == x)]
        assert free
        order += free
        placed |= set(free)
        remaining = [x for x in remaining if x not in placed]
    pos = {x: i for i, x in enumerate(order)}
    by_id = {j['id']: j for j in jobs}
    flat = dict(spec)
    flat['members'] = [dict(by_id[x]) for x in order]
    flat['edges'] = sorted([pos[a], pos[b]] for a, b in edges)
    flat['order'] = list(range(len(order)))
    return flat


def abort_instants(ix, trace):
    out = []
    for sp in ix.scheds():
        for ev in ix.critical_raises(sp['id']):
            out.append(ev['t'])
        v = ix.verdict(sp['id'])
        if v['kind'] == 'timeout':
            out.append(ix.t_abs(sp['id']))
    return out


def twin_oracle(case, res):
    tree = make_flattenable(case)
    nested = [sp for sp, parent, _ in iter_specs(tree)
              if sp['kind'] == 'sched' and parent is not None]
    if not nested:
        res.label('twin:no-nested-scheduler')
        return False
    flat = flatten(tree)
    t1, ix1 = run_case(tree, run_on=False)
    t2, ix2 = run_case(flat, run_on=False)
    res.executions = 2
    shape_labels(tree, t1, res)
    if not (ix1.terminated() and ix2.terminated()):
        res.inconclusive = 'nonterminating'
        return False
    aborts = abort_instants(ix1, t1) + abort_instants(ix2, t2)
    limit = min(aborts) if aborts else float('inf')
    diff = []
    for j in flat['members']:
        x = j['id']
        e1, e2 = ix1.enter(x), ix2.enter(x)
        t_e1 = e1['t'] if e1 else float('inf')
        t_e2 = e2['t'] if e2 else float('inf')
        if min(t_e1, t_e2) < limit and t_e1 != t_e2:
            diff.append((x, 'enter', t_e1, t_e2))
            continue
        x1, x2 = ix1.exit(x), ix2.exit(x)
        t_x1 = x1['t'] if x1 else float('inf')
        t_x2 = x2['t'] if x2 else float('inf')
        if min(t_x1, t_x2) < limit and (t_x1 != t_x2 or x1['how'] != x2['how']):
            diff.append((x, 'exit', (x1 and x1['how'], t_x1), (x2 and x2['how'], t_x2)))
    if not aborts and (t1.outcome != t2.outcome):
        diff.append(('run()', t1.outcome, t2.outcome))
    if diff:
        res.fail('C10:nested-differs-from-flattened',
                 "jobs do not run at the same times as in the flattened graph (compared "
                 "strictly before t=%s): %s" % (limit, diff[:5]),
                 ["--- nested run"] + context(ix1, limit=60) + ["--- flattened run"]
                 + context(ix2, limit=60))
    res.label('twin:compared' + (':with-abort' if aborts else ''))
    middle = False
    for sp, parent, _ in iter_specs(tree):
        if sp['kind'] == 'sched':
            for i, m in enumerate(sp['members']):
                if m['kind'] == 'sched' and len(m['members']) >= 2 and \
                        any(e[1] == i for e in sp['edges']) and \
                        any(e[0] == i for e in sp['edges']):
                    middle = True
    if middle:
        res.label('twin:nested-in-the-middle')
    return middle


def evaluate(case):
    res = Result()
    if 'mode' not in case:
        case = dict(mode='general', scenario=case)
    if case['mode'] == 'twin':
        res.nontrivial = twin_oracle(case['scenario'], res)
        return res
    scenario = case['scenario']
    trace, ix = run_case(scenario, run_on=False)
    shape_labels(scenario, trace, res)
    if not ix.terminated():
        res.inconclusive = 'nonterminating'
    res.nontrivial = general_oracle(scenario, trace, ix, res)
    res.sample = dict(outcome=trace.outcome,
                      verdicts={sp['id']: ix.verdict(sp['id'])['kind'] for sp in ix.scheds()})
    return res
