"""C06 - non-critical failures are contained: the rest of the run is unaffected"""

from hypothesis import strategies as st

from ..campaign import Result
from .. import strategies as S
from ..scenario import iter_specs
from ._rt import run_case, shape_labels, RT_ASSUMPTIONS, context

ID = 'C06'
LEVEL = 'exploration'
DESIGN_REF = 'DESIGN.md section 4, C06'
TECHNIQUE = ("property-based testing with a metamorphic relation: each generated scenario is "
             "run twice on the virtual-time loop, with one (or several) non-critical atomic "
             "job(s) returning and then raising; every other job's start time, exit kind, exit "
             "time and result, and every scheduler's verdict, diagnosis, begin and end time "
             "must be equal")
LEVEL_TEXT = ("generated search over pairs of runs; equality is exact because both runs are "
              "deterministic functions of the scenario")
LEVEL_NOTE = "trusts the trace recorder and the determinism of the virtual-time loop"
RULE = ("cases: general trees (windows and nesting included) + a subset of non-critical atomic "
        "jobs switched from returning to raising. non-trivial: a switched job actually ran "
        "and has a successor, or lives under a window, or is nested; distinct = distinct "
        "(scenario, subset) digest")
ASSUMPTIONS = RT_ASSUMPTIONS

PROFILE = S.GENERAL.but(p_raise=12, p_critical=30, p_edge=40, p_nested=24, p_wild=15,
                        windows=((None, 4), (0, 1), (1, 3), (2, 3), (3, 1)))


def budget(tier):
    return dict(examples=6000 if tier == 'quick' else 100000)


def strategy(tier):
    return st.fixed_dictionaries(dict(
        scenario=S.scenarios(PROFILE),
        picks=st.lists(st.integers(0, 30), min_size=1, max_size=3)))


def atomic_ids(case):
    return [sp['id'] for sp, _, _ in iter_specs(case) if sp['kind'] == 'job']


def variant(case, ids, outcome):
    new = S.clone(case)
    for sp, _, _ in iter_specs(new):
        if sp['id'] in ids:
            sp['critical'] = False
            sp.pop('late_critical', None)
            sp['outcome'] = outcome
    return new


def summary(ix, skip):
    jobs = {}
    scheds = {}
    for ident, sp in ix.specs.items():
        en, ex = ix.enter(ident), ix.exit(ident)
        if sp['kind'] == 'job':
            if ident in skip:
                jobs[ident] = (en['t'] if en else None, ex['t'] if ex else None,
                               'cancelled' if ex is not None and ex['how'] == 'cancelled'
                               else 'normal' if ex is not None else None)
            else:
                jobs[ident] = (en['t'] if en else None, ex['how'] if ex else None,
                               ex['t'] if ex else None, ex.get('obj') if ex else None)
        else:
            v = ix.verdict(ident)
            ev = v['ev']
            scheds[ident] = (v['kind'], en['t'] if en else None, ev['t'] if ev else None,
                             ev.get('obj') if ev else None, ev.get('why') if ev else None)
    return jobs, scheds


def evaluate(case):
    res = Result()
    scenario = case['scenario']
    ids = atomic_ids(scenario)
    if not ids:
        return res
    chosen = sorted({ids[p % len(ids)] for p in case['picks']})
    ok = variant(scenario, chosen, 'return')
    ko = variant(scenario, chosen, 'raise')
    t1, ix1 = run_case(ok, run_on=False)
    t2, ix2 = run_case(ko, run_on=False)
    res.executions = 2
    shape_labels(ok, t1, res)
    j1, s1 = summary(ix1, chosen)
    j2, s2 = summary(ix2, chosen)
    diff = [(k, j1[k], j2[k]) for k in sorted(j1) if j1[k] != j2[k]]
    diff += [(k, s1[k], s2[k]) for k in sorted(s1) if s1[k] != s2[k]]
    if diff or t1.outcome != t2.outcome:
        res.fail('C06:outcome-of-non-critical-job-visible',
                 "switching %s from returning to raising changes the rest of the run: %s ; "
                 "run() %s vs %s" % (chosen, diff[:5], t1.outcome, t2.outcome),
                 ["--- run with %s raising" % chosen] + context(ix2))
        res.replay_case = dict(scenario=scenario, picks=case['picks'])
    for x in chosen:
        ex = ix2.exit(x)
        if ex is not None and ex['how'] == 'raise':
            fin = t2.final.get(x, {})
            if fin.get('raised') != ex['obj'] or not fin.get('done'):
                res.fail('C06:exception-not-retrievable',
                         "%s raised %s but afterwards raised_exception()=%s is_done()=%s"
                         % (x, ex['obj'], fin.get('raised'), fin.get('done')), context(ix2))
            parent = ix2.parent[x]
            req = ix2.requirements(parent['id'])
            succ = [m for m, rs in req.items() if x in rs]
            for m in succ:
                en = ix2.enter(m)
                if en is not None and en['seq'] < ex['seq']:
                    res.fail('C06:successor-before-failed-job-finished',
                             "%s entered before %s had raised" % (m, x), context(ix2))
            if succ and any(ix2.enter(m) is not None for m in succ):
                res.nontrivial = True
                res.label('raised-job-has-successor-that-ran')
            if parent['window']:
                res.nontrivial = True
                res.label('raised-job-under-window')
            if ix2.parent[parent['id']] is not None:
                res.nontrivial = True
                res.label('raised-job-nested')
    res.sample = dict(switched=chosen, outcome=t1.outcome)
    return res
