"""C19 - the construction API builds exactly the documented requirement edges"""

from hypothesis import strategies as st

from asynciojobs import Sequence, Job, PrintJob

from ..campaign import Result
from ..structural import SJob, SSched, SPure, quiet, STRUCT_ASSUMPTIONS

ID = 'C19'
LEVEL = 'exploration'
DESIGN_REF = 'DESIGN.md section 4, C19'
TECHNIQUE = ("model-based property testing over generated API programs (constructors with "
             "required= / scheduler=, Sequence with nested sequences and None, append, "
             "Sequence.requires, requires(..., remove=) with arbitrarily nested lists / tuples "
             "/ sets, add, update, remove), interpreted by the library and by a reference "
             "model of the documented semantics; state compared after every statement")
LEVEL_TEXT = ("generated histories against an executable reference model; the failing program "
              "is shrunk to a few statements and replays without Hypothesis")
LEVEL_NOTE = ("trusts the reference model (about 100 lines) as the reading of the documented "
              "semantics; only documented argument types are generated; the state after a "
              "predicted KeyError is re-synchronised from the library, not compared")
RULE = ("cases: programs of <= 12 statements over a pool of <= 8 jobs (two of them nestable "
        "schedulers), sequences and one top-level scheduler. non-trivial: a program with an "
        "append(), or a nested (list/tuple/set) argument, or a removal; distinct = distinct "
        "program digest")
ASSUMPTIONS = STRUCT_ASSUMPTIONS


def budget(tier):
    return dict(examples=5000 if tier == 'quick' else 250000)


leaf = st.one_of(st.none(), st.tuples(st.just('J'), st.integers(0, 9)),
                 st.tuples(st.just('S'), st.integers(0, 5)))
arg = st.recursive(
    leaf,
    lambda kids: st.one_of(
        st.tuples(st.just('list'), st.lists(kids, max_size=3)),
        st.tuples(st.just('tuple'), st.lists(kids, max_size=3)),
        st.tuples(st.just('set'), st.lists(leaf, max_size=3))),
    max_leaves=5)
items = st.lists(leaf, max_size=4)
sched_ref = st.one_of(st.none(), st.integers(0, 2))

statement = st.one_of(
    st.tuples(st.just('newjob'), arg, sched_ref),
    # the caller's own container: given to two constructors, and / or mutated afterwards
    st.tuples(st.just('newjob-shared'), st.sampled_from(['set', 'list']),
              st.lists(leaf, max_size=3), st.booleans(), leaf),
    st.tuples(st.just('newseq'), items, arg, sched_ref),
    st.tuples(st.just('append'), st.integers(0, 5), items),
    st.tuples(st.just('seqrequires'), st.integers(0, 5), st.lists(arg, max_size=2)),
    st.tuples(st.just('requires'), st.integers(0, 9), st.lists(arg, max_size=3),
              st.booleans()),
    st.tuples(st.just('add'), st.integers(0, 2), leaf),
    st.tuples(st.just('update'), st.integers(0, 2), items),
    st.tuples(st.just('remove'), st.integers(0, 2), st.integers(0, 9)),
)


def strategy(tier):
    return st.fixed_dictionaries(dict(
        top=st.sampled_from(['pure', 'nestable']),
        program=st.lists(statement, min_size=1, max_size=12)))


def mentions_sequence(a):
    if a is None:
        return False
    if a[0] == 'S':
        return True
    if a[0] == 'J':
        return False
    return any(mentions_sequence(x) for x in a[1])


def jsonable(x):
    if isinstance(x, (list, tuple)):
        return [jsonable(i) for i in x]
    return x


async def _noop():
    return None


class HJob(Job):
    def __init__(self, hkey, *args, **kw):
        self.v_hkey = hkey          # before the constructor may add us to a scheduler's set
        Job.__init__(self, *args, **kw)

    def __hash__(self):
        return self.v_hkey


class HPrintJob(PrintJob):
    def __init__(self, hkey, *args, **kw):
        self.v_hkey = hkey
        PrintJob.__init__(self, *args, **kw)

    def __hash__(self):
        return self.v_hkey


class World:
    """the library side and the model side, kept in step"""

    def __init__(self, top):
        with quiet():
            self.jobs = [SJob('j0', hkey=3), SJob('j1', hkey=1),
                         SSched('n0', hkey=2), SSched('n1', hkey=5)]
            self.top = SPure('T') if top == 'pure' else SSched('T')
        self.scheds = [self.top, self.jobs[2], self.jobs[3]]
        self.seqs = []
        # model
        self.m_req = [set(), set(), set(), set()]
        self.m_members = [set(), set(), set()]          # per scheduler: job indexes
        self.m_seqs = []                                # dict(jobs=[...], sched, pending)
        self.owner = {}                                 # job index -> scheduler index

    # ---- resolving references
    def job(self, i):
        return i % len(self.jobs)

    def seq(self, i):
        return i % len(self.seqs) if self.seqs else None

    def real(self, a):
        """JSON argument -> python object for the library"""
        if a is None:
            return None
        kind = a[0]
        if kind == 'J':
            return self.jobs[self.job(a[1])]
        if kind == 'S':
            k = self.seq(a[1])
            return None if k is None else self.seqs[k]
        kids = [self.real(x) for x in a[1]]
        if kind == 'list':
            return kids
        if kind == 'tuple':
            return tuple(kids)
        return set(kids)

    def model_targets(self, a):
        """JSON argument -> list of job indexes it designates as requirements (in order;
        order inside a set is unknown)"""
        if a is None:
            return []
        kind = a[0]
        if kind == 'J':
            return [self.job(a[1])]
        if kind == 'S':
            k = self.seq(a[1])
            if k is None or not self.m_seqs[k]['jobs']:
                return []
            return [self.m_seqs[k]['jobs'][-1]]
        out = []
        kids = a[1]
        if kind == 'set':
            seen = []
            for x in kids:
                r = self.real(x)
                if not any(r is s for s in seen):
                    seen.append(r)
                    out += self.model_targets(x)
            return out
        for x in kids:
            out += self.model_targets(x)
        return out

    def model_flatten(self, its):
        out = []
        for x in its:
            if x is None:
                continue
            if x[0] == 'J':
                out.append(self.job(x[1]))
            else:
                k = self.seq(x[1])
                if k is not None:
                    out += self.m_seqs[k]['jobs']
        return out

    def m_require(self, j, targets):
        for t in targets:
            if t != j:
                self.m_req[j].add(t)

    def may_join(self, sched_idx, job_indexes):
        """documented precondition: a job belongs to one scheduler at most; and keep the
        containment relation between schedulers a tree"""
        for j in job_indexes:
            if self.owner.get(j, sched_idx) != sched_idx:
                return False
            if j in (2, 3):
                mine = j - 1                    # scheduler index of that nestable job
                if mine == sched_idx:
                    return False
                # would sched_idx end up inside itself ?
                cur = sched_idx
                while cur in (1, 2):
                    holder = self.owner.get(cur + 1)
                    if holder is None:
                        break
                    if holder == mine:
                        return False
                    cur = holder
        return True

    def m_join(self, sched_idx, job_indexes):
        for j in job_indexes:
            self.m_members[sched_idx].add(j)
            self.owner[j] = sched_idx


def run_program(case, res):
    w = World(case['top'])
    flags = set()

    def compare(tag):
        for j, job in enumerate(w.jobs):
            got = set()
            for r in job.required:
                idx = [k for k, o in enumerate(w.jobs) if o is r]
                got.add(idx[0] if idx else '?')
            if got != w.m_req[j] or len(job.required) != len(w.m_req[j]):
                res.fail('C19:requirements',
                         "%s: %s requires %s, documented semantics give %s"
                         % (tag, job.v_id, sorted(map(str, got)), sorted(w.m_req[j])))
                return False
        for k, seq in enumerate(w.seqs):
            got = [[i for i, o in enumerate(w.jobs) if o is x] for x in seq.jobs]
            got = [g[0] if g else '?' for g in got]
            if got != w.m_seqs[k]['jobs']:
                res.fail('C19:sequence-jobs', "%s: sequence %d holds %s, expected %s"
                         % (tag, k, got, w.m_seqs[k]['jobs']))
                return False
        for s, sched in enumerate(w.scheds):
            got = sorted(i for i, o in enumerate(w.jobs) if any(o is m for m in sched.jobs))
            if got != sorted(w.m_members[s]) or len(sched.jobs) != len(w.m_members[s]) \
                    or len(sched) != len(w.m_members[s]):
                res.fail('C19:membership', "%s: scheduler %d holds %s (len %d), expected %s"
                         % (tag, s, got, len(sched.jobs), sorted(w.m_members[s])))
                return False
        return True

    for step, stmt in enumerate(case['program']):
        op = stmt[0]
        tag = "after statement %d %s" % (step, jsonable(stmt))
        try:
            with quiet():
                if op == 'newjob':
                    if len(w.jobs) >= 8:
                        continue
                    _, a, s = stmt
                    new = len(w.jobs)
                    if s is not None and not w.may_join(s, [new]):
                        s = None
                    targets = w.model_targets(a)
                    # the library's own job classes take required= / scheduler= as well
                    cls_kind = (len(w.jobs) + len(case['program'])) % 4
                    kw = dict(required=w.real(a),
                              scheduler=None if s is None else w.scheds[s])
                    hkey = (new * 5) % 16
                    if cls_kind == 2:
                        job = HJob(hkey, _noop(), label='j%d' % new, **kw)
                    elif cls_kind == 3:
                        job = HPrintJob(hkey, 'j%d' % new, label='j%d' % new, **kw)
                    else:
                        job = SJob('j%d' % new, hkey=hkey, **kw)
                    job.v_id = 'j%d' % new
                    w.jobs.append(job)
                    w.m_req.append(set())
                    w.m_require(new, targets)
                    if s is not None:
                        w.m_join(s, [new])
                    if a is not None and a[0] in ('list', 'tuple', 'set'):
                        flags.add('nested-argument')
                elif op == 'newjob-shared':
                    if len(w.jobs) >= 7:
                        continue
                    _, kind, leaves, twin, later = stmt
                    a = (kind, leaves)
                    targets = w.model_targets(a)
                    container = w.real(a)           # ONE object, owned by the caller
                    for _ in range(2 if twin else 1):
                        new = len(w.jobs)
                        job = SJob('j%d' % new, hkey=(new * 5) % 16, required=container)
                        w.jobs.append(job)
                        w.m_req.append(set())
                        w.m_require(new, targets)
                    extra = w.real(later)
                    if extra is not None and not isinstance(extra, Sequence):
                        # what the caller does with its container afterwards is its business
                        if kind == 'set':
                            container.add(extra)
                        else:
                            container.append(extra)
                    flags.add('shared-argument')
                elif op == 'newseq':
                    if len(w.seqs) >= 5:
                        continue
                    _, its, a, s = stmt
                    flat = w.model_flatten(its)
                    if s is not None and not w.may_join(s, flat):
                        s = None
                    targets = w.model_targets(a)
                    seq = Sequence(*[w.real(x) for x in its], required=w.real(a),
                                   scheduler=None if s is None else w.scheds[s])
                    w.seqs.append(seq)
                    for x, y in zip(flat, flat[1:]):
                        w.m_require(y, [x])
                    pending = None
                    if flat:
                        w.m_require(flat[0], targets)
                    elif mentions_sequence(a):
                        # what an empty sequence's required= designates when it names
                        # another sequence (its last job now, or at the time of the first
                        # append ?) is not specified: not compared
                        pending = 'unspecified'
                    elif targets:
                        pending = targets
                    w.m_seqs.append(dict(jobs=list(flat), sched=s, pending=pending))
                    if s is not None:
                        w.m_join(s, flat)
                    if any(x is not None and x[0] == 'S' for x in its):
                        flags.add('nested-sequence')
                elif op == 'append':
                    _, k, its = stmt
                    k = w.seq(k)
                    if k is None:
                        continue
                    m = w.m_seqs[k]
                    flat = w.model_flatten(its)
                    if m['sched'] is not None and not w.may_join(m['sched'], flat):
                        continue
                    w.seqs[k].append(*[w.real(x) for x in its])
                    flags.add('append')
                    chain = m['jobs'] + flat
                    start = max(len(m['jobs']), 1)
                    for pos in range(start, len(chain)):
                        w.m_require(chain[pos], [chain[pos - 1]])
                    if not m['jobs'] and flat and m['pending'] == 'unspecified':
                        first = flat[0]
                        w.m_req[first] = {i for i, o in enumerate(w.jobs)
                                          if any(o is r for r in w.jobs[first].required)}
                        m['pending'] = None
                    elif not m['jobs'] and flat and m['pending']:
                        w.m_require(flat[0], m['pending'])
                        m['pending'] = None
                    m['jobs'] = chain
                    if m['sched'] is not None:
                        w.m_join(m['sched'], flat)
                elif op == 'seqrequires':
                    _, k, args = stmt
                    k = w.seq(k)
                    if k is None or not w.m_seqs[k]['jobs']:
                        continue            # requirements of an empty sequence: unspecified
                    first = w.m_seqs[k]['jobs'][0]
                    targets = [t for a in args for t in w.model_targets(a)]
                    w.seqs[k].requires(*[w.real(a) for a in args])
                    w.m_require(first, targets)
                elif op == 'requires':
                    _, j, args, remove = stmt
                    j = w.job(j)
                    targets = [t for a in args for t in w.model_targets(a)]
                    if any(a is not None and a[0] in ('list', 'tuple', 'set') for a in args):
                        flags.add('nested-argument')
                    if not remove:
                        w.jobs[j].requires(*[w.real(a) for a in args])
                        w.m_require(j, targets)
                    else:
                        flags.add('removal')
                        current = set(w.m_req[j])
                        expect_error = False
                        for t in targets:
                            if t in current:
                                current.discard(t)
                            else:
                                expect_error = True
                                break
                        try:
                            w.jobs[j].requires(*[w.real(a) for a in args], remove=True)
                            raised = False
                        except KeyError:
                            raised = True
                        if raised != expect_error:
                            res.fail('C19:remove-keyerror',
                                     "%s: requires(..., remove=True) %s KeyError; %s required "
                                     "%s and the named requirements are %s"
                                     % (tag, 'raised' if raised else 'did not raise',
                                        w.jobs[j].v_id, sorted(w.m_req[j]), targets))
                            return flags
                        if expect_error:
                            # partial removal: state unspecified, re-synchronise
                            w.m_req[j] = {i for i, o in enumerate(w.jobs)
                                          if any(o is r for r in w.jobs[j].required)}
                        else:
                            w.m_req[j] = current
                elif op in ('add', 'update'):
                    _, s, what = stmt
                    its = [what] if op == 'add' else what
                    flat = w.model_flatten(its)
                    if not w.may_join(s, flat):
                        continue
                    if op == 'add':
                        obj = w.real(what)
                        if obj is None:
                            continue        # add(None) is not a documented call
                        w.scheds[s].add(obj)
                    else:
                        w.scheds[s].update([w.real(x) for x in its])
                    w.m_join(s, flat)
                elif op == 'remove':
                    _, s, j = stmt
                    j = w.job(j)
                    present = j in w.m_members[s]
                    try:
                        w.scheds[s].remove(w.jobs[j])
                        raised = False
                    except KeyError:
                        raised = True
                    if raised == present:
                        res.fail('C19:scheduler-remove-keyerror',
                                 "%s: remove() %s KeyError, job present=%s"
                                 % (tag, 'raised' if raised else 'did not raise', present))
                        return flags
                    if present:
                        w.m_members[s].discard(j)
                        w.owner.pop(j, None)
        except Exception as exc:
            res.fail('C19:statement-raises', "%s: unexpected %s: %s"
                     % (tag, type(exc).__name__, exc))
            return flags
        if not compare(tag):
            return flags
    return flags


def evaluate(case):
    res = Result()
    flags = run_program(case, res)
    for f in sorted(flags):
        res.label(f)
    res.label('statements:%d' % len(case['program']))
    res.nontrivial = bool(flags & {'append', 'nested-argument', 'removal', 'nested-sequence',
                                   'shared-argument'})
    return res
