"""C11 - clean exit: once a run is over, nothing it started is still running"""

from hypothesis import strategies as st

from ..campaign import Result
from .. import strategies as S
from ..scenario import iter_specs
from ._rt import run_case, shape_labels, RT_ASSUMPTIONS, context

ID = 'C11'
LEVEL = 'fault_enumeration'
DESIGN_REF = 'DESIGN.md section 4, C11'
TECHNIQUE = ("property-based testing + crash-point enumeration: for a generated tree and a "
             "nested scheduler N inside an ancestor A, A is ended at every instant (step 0.5) "
             "of N's life by each of three mechanisms (A's timeout, a critical sibling "
             "raising, the last non-forever sibling ending with N forever); the task factory "
             "of the virtual loop records every task, and the loop is run on after run()")
LEVEL_TEXT = ("every cancellation instant of the chosen nested run is enumerated (integers and "
              "half-integers over its main, tidy and shutdown phases) for generated trees; the "
              "oracle looks at every run exit, at the loop's unfinished tasks and at late "
              "activity")
LEVEL_NOTE = ("trusts the virtual loop's task factory as the complete list of tasks; instants "
              "are enumerated on the half-integer grid on which all generated durations lie")
RULE = ("cases: generated trees with nesting, non-zero cancellation delays and shutdown "
        "durations favoured; for each, one (nested N, ancestor A, mechanism) is picked and A is "
        "ended at every instant from N's begin - 0.5 to N's end + 1 (one execution each). "
        "non-trivial: a case where an enclosing scheduler ended while a nested run was "
        "unfinished (the nested run exits 'cancelled'); distinct = distinct (scenario, pick) "
        "digest; evidence counts the phase (main / tidy / shutdown) the victim was in")
ASSUMPTIONS = RT_ASSUMPTIONS

PROFILE = S.GENERAL.but(p_block=6, p_rerun=8, 
    p_nested=38, force_nested=85, p_empty_nested=2, max_members=4,
    cs=((0, 3), (1, 3), (2, 2)), sds=((0, 3), (1, 3), (2, 2), (3, 1)),
    sdts=((None, 1), (0, 1), (1, 3), (2, 2), (3, 1)),
    p_forever=12, p_raise=15, p_critical=35, p_wild=25)


def budget(tier):
    return dict(examples=1000 if tier == 'quick' else 20000)


def strategy(tier):
    return st.fixed_dictionaries(dict(scenario=S.scenarios(PROFILE),
                                      pick=st.integers(0, 50), mech=st.integers(0, 2)))


def clean_exit_oracle(case, trace, ix, res, tag=''):
    """the C11 clauses on one run"""
    all_events = trace.events + trace.late_events
    by_who = {}
    for ev in all_events:
        by_who.setdefault(ev['who'], []).append(ev)
    for sp in ix.scheds():
        sid = sp['id']
        for rex in ix.exits(sid):
            q = rex['seq']
            how = rex['how'] if rex['how'] == 'cancelled' else ix.verdict(sid)['kind']
            for x in ix.subtree_ids(sid):
                open_body = 0
                open_sd = 0
                for ev in by_who.get(x, ()):
                    if ev['seq'] < q:
                        if ev['kind'] in ('enter', 'run-begin'):
                            open_body += 1
                        elif ev['kind'] in ('exit', 'run-exit'):
                            open_body -= 1
                        elif ev['kind'] == 'sd-enter':
                            open_sd += 1
                        elif ev['kind'] == 'sd-exit':
                            open_sd -= 1
                    elif ev['seq'] > q:
                        if ev['kind'] in ('enter', 'run-begin') or (
                                ev['kind'] == 'task-created' and ev.get('tkind') == 'body'):
                            # a later, separate run of the same scheduler is not generated
                            res.fail('C11:job-starts-after-run-end',
                                     "%s: %s of %s at t=%s after the run of %s was over (%s) "
                                     "at t=%s" % (tag, ev['kind'], x, ev['t'], sid, how,
                                                  rex['t']), context(ix))
                if open_body > 0:
                    res.fail('C11:body-alive-at-run-end',
                             "%s: %s is still executing when the run of %s ends (%s) at t=%s"
                             % (tag, x, sid, how, rex['t']), context(ix))
                if open_sd > 0:
                    res.fail('C11:handler-pending-at-run-end',
                             "%s: the shutdown handler of %s is still pending when the run of "
                             "%s ends (%s) at t=%s" % (tag, x, sid, how, rex['t']),
                             context(ix))
    if ix.terminated():
        if trace.unfinished:
            res.fail('C11:unfinished-task-after-run',
                     "%s: after run() was over the loop still holds unfinished task(s) %s"
                     % (tag, trace.unfinished[:4]), context(ix))
        if trace.late_events:
            res.fail('C11:late-activity',
                     "%s: letting the loop run on after run() produced %s"
                     % (tag, [(e['t'], e['kind'], e['who']) for e in trace.late_events[:4]]),
                     context(ix))


def victims(ix, res=None):
    """nested runs that were cancelled from outside, with the phase they were in"""
    out = []
    for sp in ix.scheds():
        sid = sp['id']
        if ix.parent[sid] is None:
            continue
        begin = ix.enter(sid)
        if begin is None:
            continue
        reqs = [e for e in ix.cancel_reqs(sid) if e['seq'] > begin['seq']]
        ex = ix.exit(sid)
        if not reqs or (ex is not None and ex['seq'] < reqs[0]['seq']):
            continue
        q = reqs[0]['seq']
        if any(e['seq'] < q for e in ix.evs(sid, 'cosd-begin')):
            phase = 'shutdown'
        elif any(e['seq'] < q for m in sp['members'] for e in ix.cancel_reqs(m['id'])):
            phase = 'tidy'
        else:
            phase = 'main'
        out.append((sid, phase))
    return out


def pairs_of(case):
    """(nested scheduler id, ancestor id) pairs"""
    out = []

    def rec(sp, ancestors):
        for m in sp['members']:
            if m['kind'] == 'sched':
                for a in ancestors + [sp['id']]:
                    out.append((m['id'], a))
                rec(m, ancestors + [sp['id']])
    rec(case, [])
    return out


def modified(case, nid, aid, mech, r):
    new = S.clone(case)
    specs = {sp['id']: (sp, parent) for sp, parent, _ in iter_specs(new)}
    anc = specs[aid][0]
    if mech == 0:
        anc['timeout'] = r
    else:
        z = dict(kind='job', id='z', cls='abstract', d=r, k=0,
                 outcome='raise' if mech == 1 else 'return', critical=(mech == 1),
                 forever=False, c=0, sd=0, hkey=3, tkey=1)
        if mech == 2:
            for m in anc['members']:
                m['forever'] = True
        anc['members'].append(z)
        anc['order'] = list(anc['order']) + [len(anc['members']) - 1]
    return new


def evaluate(case):
    res = Result()
    if 'scenario' not in case:          # a plain scenario (replay of one run)
        trace, ix = run_case(case, run_on=True)
        shape_labels(case, trace, res)
        clean_exit_oracle(case, trace, ix, res, tag='run')
        vs = victims(ix)
        res.nontrivial = bool(vs)
        for _, phase in vs:
            res.label('victim-phase:' + phase)
        return res
    base = case['scenario']
    trace, ix = run_case(base, run_on=True)
    shape_labels(base, trace, res)
    clean_exit_oracle(base, trace, ix, res, tag='base run')
    if res.violations:
        res.replay_case = base
    vs = victims(ix)
    pairs = pairs_of(base)
    if pairs and ix.terminated() and not res.violations:
        nid, aid = pairs[case['pick'] % len(pairs)]
        mech = case['mech']
        b_anc = ix.enter(aid)
        b_n = ix.enter(nid)
        if b_anc is not None and b_n is not None:
            e_n = ix.exit(nid)
            lo = max(0.0, b_n['t'] - b_anc['t'] - 0.5)
            hi = (e_n['t'] if e_n is not None else trace.t_end) - b_anc['t'] + 1
            r = lo
            while r <= hi:
                mod = modified(base, nid, aid, mech, r)
                mtrace, mix = run_case(mod, run_on=True)
                res.executions += 1
                before = len(res.violations)
                clean_exit_oracle(mod, mtrace, mix, res,
                                  tag='%s ended by %s at +%s' % (
                                      aid, ('its timeout', 'a critical raise',
                                            'its last regular job')[mech], r))
                if len(res.violations) > before and res.replay_case is None:
                    res.replay_case = mod
                vs += victims(mix)
                r += 0.5
            res.label('sweep:mechanism-%d' % mech)
    res.nontrivial = bool(vs)
    for phase in sorted({p for _, p in vs}):
        res.label('victim-phase:' + phase)
    res.sample = dict(outcome=trace.outcome, victims=vs[:6], executions=res.executions)
    return res


def sweeps(tier):
    # deterministic part: flat schedulers of 9 .. 1025 members (just above powers of two)
    return [S.ladder_sweep(['critical', 'timeout'])]
