"""C08 - timeout bounds the run: at expiry everything is cancelled and the run fails"""

from ..campaign import Result
from .. import strategies as S
from ..scenario import iter_specs
from ..trace import NORMAL
from ._rt import library_job_anomalies, run_case, shape_labels, RT_ASSUMPTIONS, phase_oracle, context

ID = 'C08'
LEVEL = 'exploration'
DESIGN_REF = 'DESIGN.md section 4, C08'
TECHNIQUE = ("property-based testing: generated trees with timeouts at every level on a "
             "virtual-time loop; oracle = cancel requests exactly at begin+T, phase chaining "
             "to the end of the run, and a metamorphic twin (same scenario without the "
             "timeout) when every non-forever job finished strictly before T")
LEVEL_TEXT = ("generated search; expiry instants, cancel requests and run ends are compared "
              "exactly in virtual time, the no-effect clause by a second run")
LEVEL_NOTE = ("trusts the trace recorder and the patched clock (time.time() of the scheduler "
              "module = loop clock); T on the half-integer grid; completions exactly on T are "
              "accepted both ways")
RULE = ("cases: trees with timeouts (0, half-integers that never tie, integers that tie with "
        "completions) at any level, never-ending jobs, windows with queues, nested "
        "schedulers starting late. non-trivial: an expiry with >= 1 running and >= 1 queued or "
        "not-started member, or a nested expiry whose scheduler began at t > 0, or a twin "
        "pair (timeout without effect vs no timeout); distinct = distinct scenario digest")
ASSUMPTIONS = RT_ASSUMPTIONS

PROFILE = S.GENERAL.but(p_rerun=8,
    p_wild=45, p_nested=26, p_forever=10, p_raise=12, p_critical=30,
    timeouts=((None, 4), (0, 1), (0.5, 1), (1, 2), (1.5, 1), (2, 2), (2.5, 1), (3, 2),
              (3.5, 1), (4, 1), (4.5, 1), (5, 1), (6, 1), (8, 1), (12, 1)),
    windows=((None, 5), (0, 1), (1, 2), (2, 3), (3, 1)))


def budget(tier):
    return dict(examples=6000 if tier == 'quick' else 120000)


def strategy(tier):
    return S.scenarios(PROFILE)


def job_facts(ix):
    out = {}
    for ident, sp in ix.specs.items():
        en, ex = ix.enter(ident), ix.exit(ident)
        out[ident] = (en['t'] if en else None, ex['how'] if ex else None,
                      ex['t'] if ex else None,
                      ex.get('obj') if ex is not None and sp['kind'] == 'job' else
                      (ex.get('obj') if ex is not None and ex['how'] == 'return' else None))
    return out


def twin_without_timeout(case, sid):
    new = S.clone(case)
    for sp, _, _ in iter_specs(new):
        if sp['id'] == sid:
            sp['timeout'] = None
    return new


def evaluate_one(case):
    res = Result()
    trace, ix = run_case(case, run_on=False)
    shape_labels(case, trace, res)
    library_job_anomalies(trace, res, 'C08')
    if not ix.terminated():
        res.inconclusive = 'nonterminating'
    hits = phase_oracle(ID, 'timeout', ix, trace, res)
    for sp, an in hits:
        res.label('expiry')
        not_started = sum(1 for m in sp['members'] if not ix.created(m['id']))
        if an['running_at_tau'] >= 1 and (an['waiting_at_tau'] or not_started):
            res.nontrivial = True
            res.label('expiry:running+pending')
        if ix.parent[sp['id']] is not None and an['begin']['t'] > 0:
            res.nontrivial = True
            res.label('expiry:nested-late-begin')
        if sp['timeout'] == 0:
            res.label('expiry:T=0')
    # ---- the timeout has no effect when everything finishes strictly before T
    twins = 0
    # (not for second runs: the first runs of the two twins differ, hence their clocks)
    if ix.terminated() and not getattr(trace, 'rerun', False):
        for sp in ix.scheds():
            sid = sp['id']
            if sp['timeout'] is None or twins >= 2:
                continue
            v = ix.verdict(sid)
            tabs = ix.t_abs(sid)
            if v['kind'] in ('none', 'cancelled') or tabs is None:
                continue
            last = ix.last_finite_exit(sid)
            if not ix.finite_members(sid) or last is None or last['t'] >= tabs:
                continue
            # every non-forever member finished strictly before T
            if v['kind'] == 'timeout':
                res.fail('C08:spurious-timeout',
                         "scheduler %s reports a timeout although all its non-forever jobs "
                         "had finished at t=%s, before T_abs=%s" % (sid, last['t'], tabs),
                         context(ix))
                continue
            for m in sp['members']:
                for ev in ix.cancel_reqs(m['id']):
                    if ev['t'] >= tabs:
                        res.fail('C08:cancel-at-expiry-of-finished-run',
                                 "%s is cancelled at t=%s, after scheduler %s had finished "
                                 "all its jobs before T_abs=%s" % (m['id'], ev['t'], sid, tabs),
                                 context(ix))
            twin = twin_without_timeout(case, sid)
            ttrace, tix = run_case(twin, run_on=False)
            res.executions += 1
            twins += 1
            res.nontrivial = True
            res.label('twin:timeout-without-effect')
            a, b = job_facts(ix), job_facts(tix)
            diff = [(k, a[k], b[k]) for k in sorted(a) if a[k] != b[k]]
            va = {s['id']: ix.verdict(s['id'])['kind'] for s in ix.scheds()}
            vb = {s['id']: tix.verdict(s['id'])['kind'] for s in tix.scheds()}
            if diff or va != vb or trace.outcome != ttrace.outcome:
                res.fail('C08:timeout-without-effect-changes-the-run',
                         "all non-forever jobs of %s finish at t=%s, strictly before "
                         "T_abs=%s, yet removing its timeout changes the run: %s ; verdicts "
                         "%s vs %s" % (sid, last['t'], tabs, diff[:4], va, vb), context(ix))
    res.sample = dict(outcome=trace.outcome,
                      expiries=[dict(sched=sp['id'], T_abs=an['tau'], end=an['rex']['t'] if an['rex'] else None)
                                for sp, an in hits], twins=twins)
    return res


from ._rt import with_variants                     # noqa: E402
evaluate = with_variants(evaluate_one)


def sweeps(tier):
    # deterministic part: flat schedulers of 9 .. 1025 members (just above powers of two)
    return [S.time_ladder_sweep(), S.ladder_sweep(['timeout'])]
