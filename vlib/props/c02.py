"""C02 - success means every non-forever job ran exactly once; no job ever runs twice"""

from ..campaign import Result
from .. import strategies as S
from ..trace import NORMAL
from ._rt import run_case, shape_labels, RT_ASSUMPTIONS, context

ID = 'C02'
LEVEL = 'exploration'
DESIGN_REF = 'DESIGN.md section 4, C02'
TECHNIQUE = ("property-based testing: generated trees biased to same-instant completions, "
             "forever jobs that end and window queues, on a virtual-time loop; oracle = per-job "
             "task and body-entry counters and, for every run that reported success, one "
             "completed body per non-forever member before the run returned")
LEVEL_TEXT = ("generated search; counters are exact, the success clause is checked against "
              "the global event order")
LEVEL_NOTE = "trusts the trace recorder and the task factory log"
RULE = ("cases: trees with many equal durations (same-instant completions, 0-3 extra yields "
        "apart), forever jobs that end, windows with queues. non-trivial: a successful run in "
        "which >= 2 members exited in the same instant, or in which a forever member exited "
        "before the end; distinct = distinct scenario digest")
ASSUMPTIONS = RT_ASSUMPTIONS

PROFILE = S.GENERAL.but(p_block=6, p_rerun=8, 
    durations=((0, 3), (1, 6), (2, 4), (3, 1)), ks=((0, 3), (1, 2), (2, 2), (3, 1)),
    p_forever=25, p_never=25, p_raise=15, p_critical=20, p_edge=30, p_wild=10,
    timeouts=((None, 14), (2, 1), (2.5, 1), (3, 1), (4, 1), (6, 1)),
    windows=((None, 4), (0, 1), (1, 2), (2, 3), (3, 2), (4, 1)))


def budget(tier):
    return dict(examples=6000 if tier == 'quick' else 150000)


def strategy(tier):
    return S.scenarios(PROFILE)


def oracle(case, trace, ix, res):
    for ident, sp in ix.specs.items():
        if ix.parent[ident] is None:
            continue
        n_tasks = len(ix.created(ident))
        n_enter = len(ix.enters(ident))
        if n_tasks > 1:
            res.fail('C02:scheduled-twice', "%d tasks were created for %s in one run"
                     % (n_tasks, ident), context(ix))
        if n_enter > 1:
            res.fail('C02:entered-twice', "the body of %s was entered %d times"
                     % (ident, n_enter), context(ix))
    for sp in ix.scheds():
        sid = sp['id']
        v = ix.verdict(sid)
        if v['kind'] != 'success':
            continue
        rex = v['ev']
        exits_t = []
        for m in ix.finite_members(sid):
            mid = m['id']
            en = ix.enters(mid)
            ex = ix.exit(mid)
            if len(en) != 1:
                res.fail('C02:success-but-job-not-run',
                         "%s reports success at t=%s but its non-forever job %s was started "
                         "%d time(s)" % (sid, rex['t'], mid, len(en)), context(ix))
                continue
            if ex is None or ex['how'] not in NORMAL or ex['seq'] > rex['seq']:
                res.fail('C02:success-but-job-unfinished',
                         "%s reports success at t=%s but its non-forever job %s had not run to "
                         "its end (%s)" % (sid, rex['t'], mid,
                                           ex['how'] if ex else 'still running'),
                         context(ix))
                continue
            if ex['how'] == 'raise' and m['critical']:
                res.fail('C02:success-with-critical-raise',
                         "%s reports success although its critical job %s raised"
                         % (sid, mid), context(ix))
            exits_t.append(ex['t'])
        all_t = [ix.normal_exit(m['id'])['t'] for m in sp['members']
                 if ix.normal_exit(m['id']) is not None]
        if len(all_t) != len(set(all_t)):
            res.nontrivial = True
            res.label('success:same-instant-exits')
        for m in sp['members']:
            ex = ix.normal_exit(m['id'])
            if m['forever'] and ex is not None and ex['seq'] < rex['seq']:
                res.nontrivial = True
                res.label('success:forever-member-ended')
                break


def evaluate_one(case):
    res = Result()
    trace, ix = run_case(case, run_on=False)
    shape_labels(case, trace, res)
    oracle(case, trace, ix, res)
    res.sample = dict(outcome=trace.outcome, events=len(trace.events))
    return res


from ._rt import with_variants                     # noqa: E402
evaluate = with_variants(evaluate_one)


# ---- a small complete family around "a join job released twice": three entry jobs (one of
# them may raise, non-critical) and a job that requires two of them, under a window of 1 or
# 2, every combination of durations {0,1}, extra yields (0..3 for the second requirement) and
# six iteration orders
_HK = [(0, 1, 2, 3), (3, 2, 1, 0), (1, 3, 0, 2), (2, 0, 3, 1), (0, 0, 0, 0), (5, 1, 5, 1)]


def _join_family(chunk):
    import itertools
    window = 1 + chunk % 2
    a_out = ('return', 'raise')[chunk // 2 % 2]
    hk = _HK[chunk // 4]
    for ka, kb, kd, da, db, dd, kc in itertools.product(
            (0, 1), (0, 1, 2, 3), (0, 1), (0, 1), (0, 1), (1, 2), (0, 1)):
        def job(n, d, k, outcome='return'):
            return dict(kind='job', id='j%d' % (n + 1), cls='abstract', d=d, k=k,
                        outcome=outcome, critical=False, forever=False, c=0, sd=0,
                        hkey=hk[n], tkey=n % 2)
        yield dict(kind='sched', id='s0', cls='nestable', window=window, timeout=None, sdt=1,
                   critical=False, forever=False, verbose=False, hkey=0, tkey=0,
                   members=[job(0, da, ka, a_out), job(1, db, kb), job(2, dd, kd),
                            job(3, 0, kc)],
                   edges=[[0, 3], [1, 3]], order=[0, 1, 2, 3], build='ctor')


def sweeps(tier):
    # deterministic parts: flat schedulers of 9 .. 1025 members (just above powers of two),
    # and the complete "join under a window" family (6 144 runs)
    return [S.ladder_sweep(['plain', 'forever']),
            ('join of two requirements under a window: all durations x yields x orders', 24,
             _join_family)]
