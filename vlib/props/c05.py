"""C05 - critical failure aborts at once: nothing new starts, running jobs are cancelled"""

from ..campaign import Result
from .. import strategies as S
from ._rt import library_job_anomalies, run_case, shape_labels, RT_ASSUMPTIONS, phase_oracle

ID = 'C05'
LEVEL = 'exploration'
DESIGN_REF = 'DESIGN.md section 4, C05'
TECHNIQUE = ("property-based testing: generated trees with raising critical jobs on a "
             "virtual-time loop; oracle = equalities between instants read in the trace "
             "(cancel requests at the instant of the raise, phase chaining up to the end of "
             "the run)")
LEVEL_TEXT = ("generated search; for every scheduler run that reported a critical failure the "
              "instant of every start, cancel request, shutdown and the end of the run are "
              "checked exactly in virtual time")
LEVEL_NOTE = ("trusts the trace recorder and the cancel-request log of the task class; jobs "
              "entering in the very instant of the raise are tolerated (the scheduler needs "
              "two loop iterations to react)")
RULE = ("cases: trees with critical raising jobs at every position relative to the others "
        "(earlier, same instant a few iterations apart, later), siblings running, queued for a "
        "window slot, not yet eligible, forever, nested. non-trivial: at the instant of the "
        "critical raise at least one sibling was running and one was queued for a slot or "
        "not yet started; distinct = distinct scenario digest")
ASSUMPTIONS = RT_ASSUMPTIONS

PROFILE = S.GENERAL.but(p_rerun=8, p_raise=30, p_critical=55, p_sched_critical=55, p_nested=24,
                        p_edge=30, p_forever=10, p_wild=15,
                        timeouts=((None, 14), (2.5, 1), (4, 1), (4.5, 1), (6, 1), (8, 1)),
                        windows=((None, 5), (0, 1), (1, 2), (2, 3), (3, 2)))


def budget(tier):
    return dict(examples=6000 if tier == 'quick' else 150000)


def strategy(tier):
    return S.scenarios(PROFILE)


def evaluate_one(case):
    res = Result()
    trace, ix = run_case(case, run_on=False)
    shape_labels(case, trace, res)
    library_job_anomalies(trace, res, 'C05')
    if not ix.terminated():
        res.inconclusive = 'nonterminating'
    hits = phase_oracle(ID, 'critical', ix, trace, res)
    for sp, an in hits:
        res.label('critical-abort')
        not_started = sum(1 for m in sp['members'] if not ix.created(m['id']))
        if an['running_at_tau'] >= 1 and (an['waiting_at_tau'] or not_started):
            res.nontrivial = True
            res.label('abort:running+pending')
        if an['waiting_at_tau']:
            res.label('abort:queued-for-slot')
        if ix.parent[sp['id']] is not None:
            res.label('abort:nested')
    res.sample = dict(outcome=trace.outcome,
                      aborts=[dict(sched=sp['id'], tau=an['tau'], end=an['rex']['t'] if an['rex'] else None)
                              for sp, an in hits])
    return res


from ._rt import with_variants                     # noqa: E402
evaluate = with_variants(evaluate_one)


def sweeps(tier):
    # deterministic part: flat schedulers of 9 .. 1025 members (just above powers of two)
    return [S.ladder_sweep(['critical'])]
