"""C16 - sanitize() closes the requirement relation minimally and reports truthfully"""

from hypothesis import strategies as st

from ..campaign import Result
from ..structural import SJob, SSched, SPure, quiet, STRUCT_ASSUMPTIONS

ID = 'C16'
LEVEL = 'exploration'
DESIGN_REF = 'DESIGN.md section 4, C16'
TECHNIQUE = ("model-based property testing: generated scheduler trees (depth <= 3) over a "
             "universe of jobs some of which belong to no scheduler, with arbitrary requirement "
             "edges (to outsiders, siblings' members, parents' and children's members, to and "
             "from nested schedulers); oracle = before/after snapshot of every required set "
             "against the intersection model, return value of a first and a second call; in half "
             "of the cases requirements are then added (no membership change) and the whole "
             "judgement is made again on a third and a fourth call")
LEVEL_TEXT = ("generated search against an exact set model; complete enumeration of a small "
              "family (two-level trees with <= 2+2 jobs and one outsider, every edge subset up "
              "to 2^12) in the thorough tier")
LEVEL_NOTE = "trusts the 10-line intersection model"
RULE = ("cases: trees up to depth 3, <= 12 objects, in 1 case in 4 the jobs outside the tree have already been run; edges drawn between any two objects of the "
        "universe (no self-loop). non-trivial: a dangling edge below the top level, or a clean "
        "tree (nothing to remove) that has a nested scheduler; distinct = distinct case digest")
ASSUMPTIONS = STRUCT_ASSUMPTIONS


def budget(tier):
    return dict(examples=5000 if tier == 'quick' else 250000)


@st.composite
def trees(draw):
    # objects: index 0 is the top scheduler; each other object has a parent scheduler index
    # (or None: outsider) and is a job or a nested scheduler
    n = draw(st.integers(2, 12))
    kinds = ['sched']
    parents = [None]
    depth = [0]
    for i in range(1, n):
        scheds = [k for k in range(i) if kinds[k] == 'sched']
        outsider = draw(st.integers(0, 5)) == 0
        p = None if outsider else draw(st.sampled_from(scheds))
        d = 0 if p is None else depth[p] + 1
        is_sched = (not outsider) and d <= 2 and draw(st.integers(0, 3)) == 0
        kinds.append('sched' if is_sched else 'job')
        parents.append(p)
        depth.append(d)
    clean = draw(st.integers(0, 3)) == 0
    density = draw(st.sampled_from([5, 12, 25]))
    edges = []
    for a in range(1, n):
        for b in range(1, n):
            if a == b:
                continue
            if clean and parents[a] != parents[b]:
                continue
            if clean and parents[a] is None:
                continue
            if draw(st.integers(0, 99)) < density:
                edges.append([a, b])            # b requires a
    if draw(st.integers(0, 39)) == 0:
        # a wide scheduler: one collector requiring a few hundred members (size thresholds)
        base = n
        holder = draw(st.sampled_from([k for k in range(n) if kinds[k] == 'sched']))
        width = draw(st.sampled_from([40, 257, 300]))
        for k in range(width + 1):
            kinds.append('job')
            parents.append(holder)
            depth.append(depth[holder] + 1)
        edges = edges + [[base + k, base + width] for k in range(width)]
        n = len(kinds)
    # requirements added AFTER a first sanitize() (no membership change), then sanitize() again
    edges2 = []
    if draw(st.booleans()):
        small = min(n, 12)
        edges2 = [list(e) for e in draw(st.lists(
            st.tuples(st.integers(1, small - 1), st.integers(1, small - 1)),
            min_size=1, max_size=4)) if e[0] != e[1]]
    return dict(top=draw(st.sampled_from(['pure', 'nestable'])), kinds=kinds,
                parents=parents, edges=edges, edges2=edges2,
                hkeys=[draw(st.integers(0, 15)) for _ in range(n)],
                verbose=draw(st.integers(0, 4)) == 0,
                outsiders_ran=draw(st.integers(0, 3)) == 0)


def strategy(tier):
    return trees()


def build(case):
    kinds, parents = case['kinds'], case['parents']
    n = len(kinds)
    objs = [None] * n
    for i in range(n - 1, 0, -1):
        pass
    # create bottom-up is not needed: create all, then add members
    for i in range(n):
        if i == 0:
            objs[i] = SPure('o0') if case['top'] == 'pure' else SSched('o0')
        elif kinds[i] == 'sched':
            objs[i] = SSched('o%d' % i, hkey=case['hkeys'][i])
        else:
            objs[i] = SJob('o%d' % i, hkey=case['hkeys'][i])
    for i in range(1, n):
        if parents[i] is not None:
            objs[parents[i]].add(objs[i])
    for a, b in case['edges']:
        objs[b].requires(objs[a])
    return objs


def evaluate(case):
    res = Result()
    with quiet():
        objs = build(case)
    kinds, parents = case['kinds'], case['parents']
    n = len(objs)
    if case.get('outsiders_ran'):
        # jobs outside the tree may well have run already (an earlier stage of a pipeline):
        # whether a requirement dangles is a matter of membership, not of its state
        import asyncio
        from asynciojobs import PureScheduler
        ran = [objs[i] for i in range(1, n)
               if parents[i] is None and kinds[i] == 'job' and not objs[i].required]
        if ran:
            loop = asyncio.new_event_loop()
            asyncio.set_event_loop(loop)
            try:
                with quiet():
                    PureScheduler(*ran).run()
            finally:
                loop.close()
                asyncio.set_event_loop(None)
            res.label('outsiders-already-ran')
    # reachable schedulers of the tree = those whose chain of parents reaches the top
    def in_tree(i):
        while i != 0:
            i = parents[i]
            if i is None:
                return False
        return True
    members = {i: {k for k in range(1, n) if parents[k] == i} for i in range(n)
               if kinds[i] == 'sched'}
    for round_no in (1, 2):
        if round_no == 2:
            if not case.get('edges2') or res.violations:
                break
            with quiet():
                for a, b in case['edges2']:
                    objs[b].requires(objs[a])
            res.label('edited-after-sanitize')
        _judge(case, objs, members, in_tree, res,
               'after the edits made since the last sanitize(): ' if round_no == 2 else '')
    if 'dirty' not in res.labels:
        res.label('clean')
    return res


def _judge(case, objs, members, in_tree, res, tag):
    kinds, parents = case['kinds'], case['parents']
    n = len(objs)
    before = {i: {k for k in range(n) if objs[k] in objs[i].required} for i in range(1, n)}
    expected = {}
    dangling_below = False
    anything = False
    for i in range(1, n):
        p = parents[i]
        if p is not None and in_tree(i):
            expected[i] = before[i] & members[p]
            if expected[i] != before[i]:
                anything = True
                if p != 0:
                    dangling_below = True
        else:
            expected[i] = before[i]
    with quiet():
        first = objs[0].sanitize(verbose=True) if case.get('verbose') else objs[0].sanitize()
    after = {i: {k for k in range(n) if objs[k] in objs[i].required} for i in range(1, n)}
    extra = {i: len(objs[i].required) - len(after[i]) for i in range(1, n)}
    for i in range(1, n):
        if after[i] != expected[i] or extra[i]:
            kept_wrong = after[i] - expected[i]
            lost = expected[i] - after[i]
            if lost:
                res.fail('C16:requirement-between-members-removed',
                         tag + "o%d (member of o%s) lost requirement(s) %s although they are members "
                         "of the same scheduler; before=%s after=%s"
                         % (i, parents[i], sorted(lost), sorted(before[i]), sorted(after[i])))
            if kept_wrong:
                res.fail('C16:dangling-requirement-kept',
                         tag + "o%d (member of o%s, members %s) still requires %s after sanitize()"
                         % (i, parents[i], sorted(members.get(parents[i], ())),
                            sorted(kept_wrong)))
    if first is not (not anything):
        res.fail('C16:first-call-return-value',
                 tag + "sanitize() returned %r although %s requirement had to be removed "
                 "(nested schedulers: %s)" % (first, 'some' if anything else 'no',
                                              [i for i in members if i and in_tree(i)]))
    with quiet():
        second = objs[0].sanitize()
    again = {i: {k for k in range(n) if objs[k] in objs[i].required} for i in range(1, n)}
    if second is not True:
        res.fail('C16:second-call-return-value', "second sanitize() returned %r" % (second,))
    if again != after:
        res.fail('C16:second-call-changes', "second sanitize() changed requirements")
    nested = any(i for i in members if i and in_tree(i))
    if dangling_below:
        res.nontrivial = True
        res.label('dangling-edge-below-top')
    if not anything and nested:
        res.nontrivial = True
        res.label('clean-tree-with-nesting')
    if anything:
        res.label('dirty')
        if tag:
            res.nontrivial = True
            res.label('dirty-again-after-edits')
