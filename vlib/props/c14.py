"""C14 - job results and life-cycle predicates tell the truth"""

from ..campaign import Result
from .. import strategies as S
from ..trace import NORMAL
from ._rt import library_job_anomalies, run_case, shape_labels, RT_ASSUMPTIONS, context, S_iter

ID = 'C14'
LEVEL = 'exploration'
DESIGN_REF = 'DESIGN.md section 4, C14'
TECHNIQUE = ("property-based testing: generated trees on a virtual-time loop that samples the "
             "public inspection API of every job (both atomic classes and nested schedulers) "
             "between any two batches of loop callbacks, at every quiescent point and after "
             "the run; oracle = the state derived from the "
             "event trace, identity of results / exceptions, monotonicity across samples")
LEVEL_TEXT = ("generated search; every job is sampled at every quiescent point and after the "
              "run and compared with the trace-derived state")
LEVEL_NOTE = ("trusts the trace recorder; trees of <= 40 objects are sampled at every iteration "
              "of the event loop, larger ones when the loop is about to advance the clock, "
              "all of them right after run()")
RULE = ("cases: general trees (windows, failures, aborts, nesting; AbstractJob subclasses and "
        "coroutine-based Job). non-trivial: some sample shows a job queued for a window slot "
        "or a cancelled job, together with a finished one; distinct = distinct scenario digest")
ASSUMPTIONS = RT_ASSUMPTIONS

PROFILE = S.GENERAL.but(p_rerun=8, p_block=6, p_coroutine=50, p_raise=22, p_critical=30, p_nested=24,
                        windows=((None, 3), (0, 1), (1, 3), (2, 3), (3, 1)),
                        p_wild=25, p_forever=14)


def budget(tier):
    return dict(examples=5000 if tier == 'quick' else 80000)


def strategy(tier):
    return S.scenarios(PROFILE)


def derived_state(ix, who, seq):
    """what the trace says about `who` just before sequence point seq"""
    created = any(e['seq'] < seq for e in ix.created(who))
    entered = any(e['seq'] < seq for e in ix.enters(who))
    ex = [e for e in ix.exits(who) if e['seq'] < seq]
    cancel = any(e['seq'] < seq for e in ix.cancel_reqs(who))
    return created, entered, (ex[0] if ex else None), cancel


def oracle(case, trace, ix, res):
    nontrivial = False
    previous = {}
    order = ('scheduled', 'running', 'done')
    for sample in trace.samples:
        seq = sample['seq']
        queued = any_finished = cancelled = False
        for who, st in sample['jobs'].items():
            parent = ix.parent.get(who)
            if getattr(trace, 'rerun', False) and parent is not None:
                # second run of the same objects: a job's state is reset when ITS scheduler
                # begins its run; until then it legitimately shows the first run's outcome
                begun = ix.enter(parent['id'])
                if begun is None or begun['seq'] >= seq:
                    continue
            if ix.parent.get(who) is None and who == case['id']:
                # the top-level scheduler is not a job of anything: never scheduled
                created, entered, ex, cancel = False, False, None, False
            else:
                created, entered, ex, cancel = derived_state(ix, who, seq)
            where = "%s at t=%s (seq %d, sample %s)" % (who, sample['t'], seq, sample['label'])

            def bad(clause, msg):
                res.fail('C14:' + clause, "%s: %s ; API says %s" % (where, msg, st),
                         context(ix))
            if st['idle'] != (not st['scheduled']):
                bad('idle-vs-scheduled', "is_idle() must be the negation of is_scheduled()")
            if st['done'] and not st['running'] or st['running'] and not st['scheduled']:
                bad('implication', "is_done => is_running => is_scheduled is broken")
            if not created:
                if not st['idle'] or st['scheduled'] or st['running'] or st['done']:
                    bad('never-scheduled-not-idle', "the job was never scheduled")
                if st['result'] != 'ValueError':
                    bad('result-before-done', "result() must raise ValueError")
                if st['raised'] is not None:
                    bad('raised-exception-not-none',
                        "raised_exception() must be None for a job that did not raise")
            else:
                if st['idle'] or not st['scheduled']:
                    bad('scheduled-but-idle', "a task was created for the job")
                if st['running'] != entered:
                    bad('running-mismatch',
                        "body %s" % ('entered' if entered else 'not entered: the job is '
                                     'waiting for a window slot'))
                normal = ex is not None and ex['how'] in NORMAL
                # a body that answers its cancellation by raising has finished by raising
                finished = normal or (ex is not None and ex['how'] == 'cancelled-raise')
                if st['done'] != finished:
                    bad('done-mismatch', "body exit: %s" % (ex['how'] if ex else None))
                if not normal and finished:
                    if st['raised'] != ex['obj']:
                        bad('wrong-exception', "the body raised %s" % (ex['obj'],))
                elif normal and ex['how'] == 'return':
                    if st['result'] != ex['obj']:
                        bad('wrong-result', "the body returned %s" % (ex['obj'],))
                    if st['raised'] is not None:
                        bad('raised-exception-not-none', "the body returned normally")
                elif normal:
                    if st['raised'] != ex['obj']:
                        bad('wrong-exception', "the body raised %s" % (ex['obj'],))
                else:
                    if st['result'] != 'ValueError':
                        bad('result-before-done', "result() must raise ValueError")
                    if st['raised'] is not None:
                        bad('raised-exception-not-none', "the job has not raised")
                if not entered and not normal:
                    queued = True
                if ex is not None and ex['how'].startswith('cancelled') \
                        or (cancel and not normal):
                    cancelled = True
                if normal:
                    any_finished = True
            prev = previous.get(who)
            if prev is not None:
                for name in order:
                    if prev[name] and not st[name]:
                        bad('predicate-reverted', "%s() went back from True to False" % name)
            previous[who] = st
        if (queued or cancelled) and any_finished:
            nontrivial = True
            if queued:
                res.label('sample:queued+finished')
            if cancelled:
                res.label('sample:cancelled+finished')
    return nontrivial


def evaluate_one(case):
    res = Result()
    small = sum(1 for _ in S_iter(case)) <= 40
    trace, ix = run_case(case, sampling='every-iteration' if small else True, run_on=False)
    shape_labels(case, trace, res)
    library_job_anomalies(trace, res, 'C14')
    res.nontrivial = oracle(case, trace, ix, res)
    res.sample = dict(outcome=trace.outcome, samples=len(trace.samples))
    return res


from ._rt import with_variants                     # noqa: E402
evaluate = with_variants(evaluate_one, n=1)


def sweeps(tier):
    # deterministic part: flat schedulers of 9 .. 1025 members (just above powers of two)
    return [S.ladder_sweep(['plain'], sizes=S.LADDER[:6])]
