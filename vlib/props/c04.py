"""C04 - the verdict of a run, and its diagnosis, are exactly determined by what happened"""

from ..campaign import Result
from .. import strategies as S
from ._rt import run_case, shape_labels, RT_ASSUMPTIONS, context

ID = 'C04'
LEVEL = 'exploration'
DESIGN_REF = 'DESIGN.md section 4, C04'
TECHNIQUE = ("property-based testing: generated flag x outcome x timeout combinations on a "
             "virtual-time loop; the expected verdict and diagnosis of every scheduler run "
             "are derived from the observed trace (which critical jobs raised, which "
             "non-forever jobs finished and when) and compared with what the run reported; "
             "second runs of the same objects (after a first run that failed, with members "
             "removed in between); enumerated: every exception class x every entry point "
             "(run, orchestrate, co_run, ...) x scheduler class / critical / nested / verbose")
LEVEL_TEXT = ("generated search with an oracle that is exact away from same-instant ties and "
              "accepts both outcomes on a tie; identity of the bubbling exception is checked "
              "by object identity")
LEVEL_NOTE = ("trusts the trace recorder; ties (a completion or a critical raise exactly on "
              "the expiry instant) are accepted both ways")
RULE = ("cases: trees with critical flags on jobs and schedulers at every level, several "
        "simultaneous failures, timeouts in {0, 0.5, 1 .. 8} so that expiries fall strictly "
        "between, exactly on and after completions. every scheduler run that ended by itself "
        "is judged. non-trivial: a case in which some scheduler run reported a failure, or a "
        "completion/raise fell exactly on an expiry instant; distinct = distinct scenario "
        "digest")
ASSUMPTIONS = RT_ASSUMPTIONS

PROFILE = S.GENERAL.but(p_verbose=20, p_rerun=10, p_exc=60,
    p_raise=28, p_critical=45, p_nested=28, p_forever=10, p_wild=25,
    timeouts=((None, 6), (0, 2), (0.5, 1), (1, 2), (1.5, 1), (2, 2), (2.5, 1), (3, 2),
              (4, 1), (4.5, 1), (5, 1), (6, 1), (8, 1)),
    windows=((None, 8), (0, 1), (1, 1), (2, 2), (3, 1)))


def budget(tier):
    return dict(examples=8000 if tier == 'quick' else 200000)


def strategy(tier):
    return S.scenarios(PROFILE)


def expected_verdict(ix, sid):
    """-> (set of acceptable verdict kinds, info) derived from what happened"""
    sp = ix.specs[sid]
    crit = ix.critical_raises(sid)
    tabs = ix.t_abs(sid)
    if crit:
        ok = {'critical'}
        if tabs is not None and crit[0]['t'] == tabs:
            ok.add('timeout')
        return ok, dict(tie=len(ok) > 1, crit=crit)
    finite = ix.finite_members(sid)
    if sp['members'] and not finite:
        return None, dict(outside=True)
    last = ix.last_finite_exit(sid) if finite else None
    finished = (not finite) or last is not None
    if tabs is None:
        return ({'success'} if finished else {'not-success'}), dict(tie=False, crit=[])
    if not finished:
        return {'timeout'}, dict(tie=False, crit=[])
    t_last = last['t'] if last is not None else ix.enter(sid)['t']
    if t_last < tabs:
        return {'success'}, dict(tie=False, crit=[])
    if t_last == tabs:
        return {'success', 'timeout'}, dict(tie=True, crit=[])
    return {'timeout'}, dict(tie=False, crit=[])


def oracle(case, trace, ix, res, prefix='C04', focus=None):
    for sp in ix.scheds():
        sid = sp['id']
        if focus is not None and not focus(sid, None):
            continue
        v = ix.verdict(sid)
        if v['kind'] in ('none', 'cancelled'):
            continue
        ev = v['ev']
        ctx = "scheduler %s (%s, critical=%s, timeout=%s)" % (
            sid, 'pure' if sp.get('cls') == 'pure' and ix.parent[sid] is None else 'nestable',
            sp['critical'], sp['timeout'])
        raises_allowed = sp['critical'] and not (sp.get('cls') == 'pure'
                                                 and ix.parent[sid] is None)
        expected, info = expected_verdict(ix, sid)
        if expected is None:
            res.label('outside:no-non-forever-member')
            continue
        if info.get('tie'):
            res.nontrivial = True
            res.label('tie-on-expiry-instant')
        # ---- what kind of verdict was reported
        if ev['how'] == 'return' and ev['obj'] is True:
            kind = 'success'
        elif ev['how'] == 'return' and ev['obj'] is False:
            kind = v['kind']            # timeout | critical | unknown, from the diagnosis
            res.nontrivial = True
        elif ev['how'] == 'return':
            res.fail(prefix + ':verdict-not-boolean', "%s returned %r" % (ctx, ev['obj']),
                     context(ix))
            continue
        else:
            res.nontrivial = True
            if not raises_allowed:
                res.fail(prefix + ':non-critical-scheduler-raised',
                         "%s raised %s instead of returning False" % (ctx, ev.get('etype')),
                         context(ix))
                continue
            crit_objs = {e['obj'] for e in info.get('crit', ())}
            # a critical job that answers its cancellation by raising has raised too: the
            # statement allows "the very exception object raised by one of its critical jobs"
            late = {ix.exit(m['id'])['obj'] for m in sp['members'] if m['critical']
                    and ix.exit(m['id']) is not None
                    and ix.exit(m['id'])['how'] == 'cancelled-raise'}
            if crit_objs and ev['obj'] in late:
                crit_objs = crit_objs | late
            if ev['obj'] in crit_objs:
                kind = 'critical'
            elif ev.get('etype') == 'TimeoutError':
                kind = 'timeout'
            else:
                res.fail(prefix + ':stray-exception',
                         "%s raised %s %s, which is neither TimeoutError nor the exception "
                         "object raised by one of its critical jobs %s (expected verdict: %s)"
                         % (ctx, ev.get('etype'), ev['obj'], sorted(crit_objs),
                            '/'.join(sorted(expected))),
                         context(ix))
                continue
        res.label('verdict:' + kind)
        # ---- right verdict ?
        acceptable = expected if 'not-success' not in expected \
            else {'timeout', 'critical', 'unknown'}
        if kind == 'unknown':
            res.fail(prefix + ':diagnosis-names-no-single-cause',
                     "%s failed but failed_time_out()=%s failed_critical()=%s why()=%r "
                     "(expected cause: %s)" % (ctx, ev.get('fto'), ev.get('fc'), ev.get('why'),
                                               '/'.join(sorted(expected))), context(ix))
            continue
        if kind not in acceptable:
            res.fail(prefix + ':wrong-verdict',
                     "%s reported %s but what happened calls for %s" %
                     (ctx, kind, '/'.join(sorted(expected))), context(ix))
            continue
        # ---- form of the verdict and diagnosis
        fto, fc, why = ev.get('fto'), ev.get('fc'), ev.get('why')
        if kind == 'success':
            if fto or fc or why != 'FINE':
                res.fail(prefix + ':diagnosis-after-success',
                         "%s succeeded but failed_time_out()=%s failed_critical()=%s why()=%r"
                         % (ctx, fto, fc, why), context(ix))
            continue
        if raises_allowed and ev['how'] == 'return':
            res.fail(prefix + ':critical-scheduler-returned-false',
                     "%s failed (%s) but returned False instead of raising" % (ctx, kind),
                     context(ix))
        if kind == 'timeout':
            tabs = ix.t_abs(sid)
            first_cancel = min([e['t'] for m in sp['members'] for e in ix.cancel_reqs(m['id'])],
                               default=None)
            if tabs is not None and (ev['t'] < tabs or (first_cancel is not None
                                                        and first_cancel < tabs)):
                res.fail(prefix + ':timeout-reported-before-expiry',
                         "%s reports a timeout at t=%s (first cancellation at t=%s) but its "
                         "timeout only expires at t=%s" % (ctx, ev['t'], first_cancel, tabs),
                         context(ix))
            if not fto or fc or not str(why).startswith('TIMED OUT'):
                res.fail(prefix + ':diagnosis-timeout',
                         "%s timed out but failed_time_out()=%s failed_critical()=%s why()=%r"
                         % (ctx, fto, fc, why), context(ix))
        if kind == 'critical':
            if not fc or fto or 'CRITICAL' not in str(why):
                res.fail(prefix + ':diagnosis-critical',
                         "%s failed on a critical job but failed_time_out()=%s "
                         "failed_critical()=%s why()=%r" % (ctx, fto, fc, why), context(ix))
    # ---- top level: run() hands over what the top-level co_run produced
    top = ix.exit(case['id'])
    if top is not None and top['how'] in ('return', 'raise') and ix.terminated():
        if trace.outcome['how'] != top['how'] or trace.outcome['obj'] != top['obj']:
            res.fail(prefix + ':run-differs-from-co_run', "run() gave %s but co_run %s"
                     % (trace.outcome, top), context(ix))
    elif trace.outcome['how'] == 'raise':
        res.fail(prefix + ':stray-exception-from-run', "run() raised %s: %s" %
                 (trace.outcome.get('etype'), trace.outcome.get('msg')), context(ix))


def evaluate_one(case):
    res = Result()
    trace, ix = run_case(case, run_on=False)
    shape_labels(case, trace, res)
    if not ix.terminated():
        res.inconclusive = 'nonterminating'
    oracle(case, trace, ix, res)
    res.sample = dict(outcome=trace.outcome,
                      verdicts={sp['id']: ix.verdict(sp['id'])['kind'] for sp in ix.scheds()})
    return res


from ._rt import with_variants                     # noqa: E402
evaluate = with_variants(evaluate_one)


def sweeps(tier):
    # deterministic part: time values just above a minute, 1000 s, an hour, a day
    # and every exception class through every entry point
    return [S.time_ladder_sweep(), S.exception_entry_sweep()]
