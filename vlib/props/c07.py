"""C07 - a window of N is never exceeded, and is scoped to its own scheduler"""

from ..campaign import Result
from .. import strategies as S
from ._rt import run_case, shape_labels, RT_ASSUMPTIONS, context

ID = 'C07'
LEVEL = 'exploration'
DESIGN_REF = 'DESIGN.md section 4, C07'
TECHNIQUE = ("property-based testing: generated windowed trees (windows 1..4 at several levels, "
             "DAG wider than the window, raising and cancelled jobs, aborts and timeouts while "
             "jobs are queued) on a virtual-time loop; oracle = per-scheduler count of direct "
             "members between body entry and body exit replayed over the global event order "
             "+ enumerated family: a job queued for a slot is cancelled by a running sibling "
             "(window x victim x nesting x set order)")
LEVEL_TEXT = "generated search; the concurrency count is exact at every event"
LEVEL_NOTE = ("trusts the trace recorder; a nested scheduler counts as one job of its parent "
              "from run-begin to run-exit")
RULE = ("cases: trees with windows at every level. non-trivial: in some windowed scheduler a "
        "member really waited for a slot (its task was created at an instant earlier than "
        "its body entry, or it was cancelled while queued); distinct = distinct scenario "
        "digest")
ASSUMPTIONS = RT_ASSUMPTIONS

PROFILE = S.GENERAL.but(p_block=6, p_rerun=8, 
    windows=((None, 1), (1, 4), (2, 4), (3, 3), (4, 1)), p_edge=18, max_members=6,
    max_jobs=16, p_raise=22, p_critical=25, p_nested=24, p_forever=10, p_wild=20,
    cs=((0, 3), (1, 2), (2, 1)))


def budget(tier):
    return dict(examples=6000 if tier == 'quick' else 150000)


def strategy(tier):
    return S.scenarios(PROFILE)


def oracle(case, trace, ix, res, prefix='C07', focus=None):
    parent_of = {}
    window = {}
    for sp in ix.scheds():
        window[sp['id']] = sp['window']
        for m in sp['members']:
            parent_of[m['id']] = sp['id']
    count = {}
    peak = {}
    for ev in trace.events + trace.late_events:
        who = ev['who']
        if who not in parent_of:
            continue
        p = parent_of[who]
        if ev['kind'] in ('enter', 'run-begin'):
            count[p] = count.get(p, 0) + 1
            peak[p] = max(peak.get(p, 0), count[p])
            if window[p] and count[p] > window[p] and (focus is None or focus(p, who)):
                res.fail(prefix + ':window-exceeded',
                         "scheduler %s has jobs_window=%s but %d of its direct jobs execute "
                         "at t=%s (seq %d, %s enters)" % (p, window[p], count[p], ev['t'],
                                                          ev['seq'], who), context(ix))
        elif ev['kind'] in ('exit', 'run-exit'):
            count[p] = count.get(p, 0) - 1
    waited = False
    for sp in ix.scheds():
        if not sp['window']:
            continue
        for m in sp['members']:
            cr = ix.created(m['id'])
            en = ix.enter(m['id'])
            if cr and ((en is not None and en['t'] > cr[0]['t'])
                       or (en is None and ix.cancel_reqs(m['id']))):
                waited = True
        if peak.get(sp['id'], 0) == sp['window']:
            res.label('window-reached')
    if waited:
        res.label('job-waited-for-slot')
    return waited


def evaluate_one(case):
    res = Result()
    trace, ix = run_case(case, run_on=True)
    shape_labels(case, trace, res)
    res.nontrivial = oracle(case, trace, ix, res)
    res.sample = dict(outcome=trace.outcome, events=len(trace.events))
    return res


from ._rt import with_variants                     # noqa: E402
evaluate = with_variants(evaluate_one)


def zap_sweep():
    """a job that holds a slot cancels the task of a sibling still queued for one (a "cancelled
    job" that never held a slot must not free one): window 1..3, 2..3 jobs more than the
    window, every choice of victim, flat or nested, three iteration orders of the job set"""
    combos = [(w, extra, v, nested, order) for w in (1, 2, 3) for extra in (2, 3)
              for v in range(w + extra) for nested in (False, True) for order in (0, 1, 2)]

    def chunk(k):
        w, extra, v, nested, order = combos[k]
        n = w + extra
        jobs = [dict(kind='job', id='j%d' % i, cls='abstract' if i % 2 else 'coroutine', d=5,
                     k=0, outcome='return', critical=False, forever=False, c=0, sd=0,
                     hkey=((i + 1) * (3, 5, 7)[order]) % 11, tkey=0,
                     zap=dict(at=1, who='j%d' % v))
                for i in range(n)]
        jobs[v].pop('zap')

        def sched(ident, members, window):
            return dict(kind='sched', id=ident, cls='nestable', window=window, timeout=None,
                        sdt=1, critical=False, forever=False, verbose=False, hkey=0, tkey=0,
                        members=members, edges=[], order=list(range(len(members))),
                        build='ctor', wild=False)
        inner = sched('s1' if nested else 's0', jobs, w)
        if nested:
            extra_job = dict(jobs[0], id='jx', hkey=9)
            extra_job.pop('zap', None)
            inner = sched('s0', [inner, extra_job], None)
        yield inner
    return ('a queued job is cancelled by a running sibling: window 1..3 x 2..3 extra jobs x '
            'victim x flat/nested x 3 set orders', len(combos), chunk)


def sweeps(tier):
    # deterministic part: flat schedulers of 9 .. 1025 members (just above powers of two)
    return [S.ladder_sweep(['plain', 'critical']), zap_sweep()]
