"""C17 - neighbour, reachability and traversal queries agree with the requirements"""

import itertools

from hypothesis import strategies as st

from ..campaign import Result
from ..structural import (SJob, SSched, SPure, closure, quiet, STRUCT_ASSUMPTIONS,
                          sparse_edges)

ID = 'C17'
LEVEL = 'exploration'
DESIGN_REF = 'DESIGN.md section 4, C17'
TECHNIQUE = ("model-based property testing against a reference BFS closure: complete "
             "enumeration of all DAGs on <= 4 indexed nodes (quick) / 5 nodes (thorough) x all "
             "non-empty start sets x forever masks, random DAGs to 12 nodes with requirements "
             "to non-members, queries repeated after generated edit programs (add job, add / "
             "remove edge, bypass_and_remove, keep_only), scheduler trees for iterate_jobs")
LEVEL_TEXT = ("exhaustive on the small spaces named by the property, generated search beyond; "
              "every query is compared with the reference on every case")
LEVEL_NOTE = "trusts the reference closure (15 lines)"
RULE = ("cases: (enumerated) DAG x start set x forever mask; (generated) DAG on <= 12 nodes, "
        "hash keys, insertion order, <= 3 start jobs, forever flags, some requirements to "
        "jobs outside the scheduler, in 1 case in 4 the scheduler has already been run once (forever jobs cancelled), an edit program of <= 6 operations incl. moveedge (queries repeated after most steps, not all), and a tree of nested "
        "schedulers for iterate_jobs. non-trivial: the transitive closure differs from the "
        "direct neighbours, or >= 2 start jobs, or a forever exit job, or a query after an "
        "edit; distinct = distinct case digest")
ASSUMPTIONS = STRUCT_ASSUMPTIONS


def budget(tier):
    return dict(examples=3000 if tier == 'quick' else 100000)


@st.composite
def big_case(draw):
    """a wide graph (300 nodes, one of them with > 256 links on each side) or a deep one (a
    chain of 1100 jobs, longer than the interpreter's recursion limit)"""
    seed = draw(st.integers(1, 2 ** 16))
    if draw(st.booleans()):
        n = 300
        edges = sparse_edges(n, seed)
    else:
        n = 1100
        edges = [[i, i + 1] for i in range(n - 1)] + [[i, i + 2] for i in range(0, n - 2, 97)]
    starts = sorted({seed % n, (seed * 7) % n, 0})[:draw(st.integers(1, 3))]
    return dict(n=n, edges=edges, outsiders=0, out_edges=[], starts=starts,
                forever=[(i * 13 + seed) % 11 == 0 for i in range(n)],
                hkeys=[(i * 7 + seed) % 16 for i in range(n)],
                order=sorted(range(n), key=lambda i: (i * 7919 + seed) % 1009),
                top=draw(st.sampled_from(['pure', 'nestable'])), program=[], tree=None,
                ran=False)


@st.composite
def cases(draw):
    if draw(st.integers(0, 199)) == 0:
        return draw(big_case())
    n = draw(st.integers(1, 12))
    density = draw(st.sampled_from([10, 25, 45]))
    edges = [[a, b] for b in range(n) for a in range(b) if draw(st.integers(0, 99)) < density]
    n_out = draw(st.integers(0, 2))
    out_edges = [[draw(st.integers(0, n_out - 1)), draw(st.integers(0, n - 1))]
                 for _ in range(draw(st.integers(0, 3)))] if n_out else []
    starts = draw(st.lists(st.integers(0, n - 1), min_size=1, max_size=3, unique=True))
    # 4th element: the queries are repeated after this step unless it is 0 (several edits in
    # a row between two queries: internal caches must not survive edits that cancel out)
    program = draw(st.lists(st.tuples(st.sampled_from(['addjob', 'addedge', 'deledge',
                                                       'moveedge', 'bypass', 'keep']),
                                      st.integers(0, 40), st.integers(0, 40),
                                      st.integers(0, 2)), max_size=6))
    tree = draw(st.recursive(st.just(None), lambda kids: st.lists(kids, max_size=4),
                             max_leaves=10))
    return dict(n=n, edges=edges, outsiders=n_out, out_edges=out_edges, starts=starts,
                forever=[draw(st.integers(0, 4)) == 0 for _ in range(n)],
                hkeys=[draw(st.integers(0, 15)) for _ in range(n)],
                order=list(draw(st.permutations(list(range(n))))),
                top=draw(st.sampled_from(['pure', 'nestable'])), program=program, tree=tree,
                ran=draw(st.integers(0, 3)) == 0, verbose=draw(st.integers(0, 4)) == 0)


def strategy(tier):
    return cases()


def check_queries(sched, live, starts, res, tag, nontrivial):
    """live: dict name -> job for current members; compare every query with the model"""
    names = {id(j): nm for nm, j in live.items()}
    members = set(live)
    edges = [(names[id(r)], nm) for nm, j in live.items() for r in j.required
             if id(r) in names]
    starts = [s for s in starts if s in live]

    def ids(objs):
        out = []
        for o in objs:
            out.append(names.get(id(o), '<non-member %s>' % getattr(o, 'v_id', o)))
        return out

    def expect(query, got, want):
        got_l = ids(got)
        if len(got_l) != len(set(got_l)) or set(got_l) != set(want):
            res.fail('C17:' + query, "%s: %s(%s) gave %s, expected %s; members %s edges %s"
                     % (tag, query, starts, sorted(got_l), sorted(want), sorted(members),
                        sorted(edges)))
    with quiet():
        if starts:
            sobj = [live[s] for s in starts]
            direct_up = {a for a, b in edges if b in starts}
            direct_down = {b for a, b in edges if a in starts}
            up = closure(members, edges, starts, False)
            down = closure(members, edges, starts, True)
            # the first query after an edit sees whatever internal state the edit left
            # behind (reverse links are recomputed on demand): rotate which query is first
            queries = [
                ('predecessors', lambda: sched.predecessors(*sobj), direct_up),
                ('successors', lambda: list(sched.successors(*sobj)), direct_down),
                ('predecessors_upstream', lambda: sched.predecessors_upstream(*sobj), up),
                ('successors_downstream', lambda: sched.successors_downstream(*sobj), down)]
            rot = (len(edges) + len(members)) % 4
            for name, call, want in queries[rot:] + queries[:rot]:
                expect(name, call(), want)
            # the reverse links are now up to date: the documented compute_backlinks=False
            # shortcut must give the same answers
            expect('successors(compute_backlinks=False)',
                   list(sched.successors(*sobj, compute_backlinks=False)), direct_down)
            expect('successors_downstream(compute_backlinks=False)',
                   sched.successors_downstream(*sobj, compute_backlinks=False), down)
            # ... also for one start job alone, after queries that had several
            one = starts[0]
            expect('successors(one start, compute_backlinks=False)',
                   list(sched.successors(live[one], compute_backlinks=False)),
                   {b for a, b in edges if a == one})
            expect('successors_downstream(one start, compute_backlinks=False)',
                   sched.successors_downstream(live[one], compute_backlinks=False),
                   closure(members, edges, [one], True))
            if up != direct_up or down != direct_down:
                nontrivial.append('closure-differs-from-direct')
            if len(starts) >= 2:
                nontrivial.append('several-starts')
        entries = {nm for nm, j in live.items() if not j.required}
        exits_all = {nm for nm in members if not any(a == nm for a, b in edges)}
        exits = {nm for nm in exits_all if not live[nm].forever}
        expect('entry_jobs', list(sched.entry_jobs()), entries)
        expect('exit_jobs', list(sched.exit_jobs()), exits)
        expect('exit_jobs(discard_forever=False)',
               list(sched.exit_jobs(discard_forever=False)), exits_all)
        expect('exit_jobs(compute_backlinks=False)',
               list(sched.exit_jobs(compute_backlinks=False)), exits)
        if exits != exits_all:
            nontrivial.append('forever-exit-job')


def build_tree(spec, name, acc_jobs, acc_scheds, top):
    kids = []
    for i, sub in enumerate(spec or []):
        nm = '%s.%d' % (name, i)
        if sub is None:
            j = SJob(nm, hkey=i)
            acc_jobs.append(j)
            kids.append(j)
        else:
            kids.append(build_tree(sub, nm, acc_jobs, acc_scheds, False))
    if top == 'pure':
        s = SPure(name, *kids)
    else:
        s = SSched(name, *kids, hkey=len(acc_scheds))
        if not top:
            acc_scheds.append(s)
    return s


class RJob(SJob):
    """runnable: a forever job never ends by itself, the others end at once"""

    async def co_run(self):
        if self.forever:
            import asyncio
            await asyncio.get_running_loop().create_future()
        return self.v_id

    async def co_shutdown(self):
        pass


def run_once(sched):
    """history: the scheduler has been run (forever jobs get cancelled at the end)"""
    import asyncio
    loop = asyncio.new_event_loop()
    asyncio.set_event_loop(loop)
    try:
        with quiet():
            return loop.run_until_complete(asyncio.wait_for(sched.co_run(), 1))
    except Exception:
        return None
    finally:
        for task in asyncio.all_tasks(loop):
            task.cancel()
        try:
            loop.run_until_complete(asyncio.sleep(0))
        except BaseException:
            pass
        loop.close()
        asyncio.set_event_loop(None)


def evaluate_inner(case):
    res = Result()
    nontrivial = []
    n = case['n']
    with quiet():
        jobs = [RJob('n%d' % i, hkey=case['hkeys'][i], forever=case['forever'][i])
                for i in range(n)]
        outs = [SJob('x%d' % i, hkey=i) for i in range(case.get('outsiders', 0))]
        for a, b in case['edges']:
            jobs[b].requires(jobs[a])
        for o, b in case.get('out_edges', ()):
            jobs[b].requires(outs[o])
        ordered = [jobs[i] for i in case['order']]
        sched = SPure('t', *ordered) if case['top'] == 'pure' else SSched('t', *ordered)
        if case.get('verbose'):
            sched.verbose = True
    forever_is_sink = not any(case['forever'][a] for a, b in case['edges'])
    if case.get('ran') and not case.get('out_edges') and not all(case['forever']) \
            and forever_is_sink:
        # queries and edits also happen on a scheduler that has already been run
        if run_once(sched) is True:
            res.label('history:scheduler-already-ran')
    live = {'n%d' % i: jobs[i] for i in range(n)}
    starts = ['n%d' % s for s in case['starts']]
    check_queries(sched, live, starts, res, 'initial', nontrivial)
    counter = n
    for step, stmt in enumerate(case.get('program', ())):
        op, a, b = stmt[0], stmt[1], stmt[2]
        query = len(stmt) < 4 or stmt[3] != 0
        names = sorted(live)
        if not names:
            break
        x = names[a % len(names)]
        y = names[b % len(names)]
        with quiet():
            if op == 'addjob':
                nm = 'n%d' % counter
                counter += 1
                j = RJob(nm, hkey=counter % 16, required=[live[x]])
                sched.add(j)
                live[nm] = j
            elif op == 'addedge':
                # keep it acyclic: only from the lower to the higher creation number
                lo, hi = sorted([x, y], key=lambda s: int(s[1:]))
                if lo == hi:
                    continue
                live[hi].requires(live[lo])
            elif op == 'deledge':
                if live[x] in live[y].required:
                    live[y].requires(live[x], remove=True)
                else:
                    continue
            elif op == 'moveedge':
                # replace one requirement of y by another one: link counts unchanged
                reqs = sorted(nm for nm in names if live[nm] in live[y].required)
                if not reqs:
                    continue
                old_req = reqs[a % len(reqs)]
                cands = [nm for nm in names if int(nm[1:]) < int(y[1:])
                         and live[nm] not in live[y].required]
                if not cands:
                    continue
                live[y].requires(live[old_req], remove=True)
                live[y].requires(live[cands[b % len(cands)]])
            elif op == 'bypass':
                sched.bypass_and_remove(live[x])
                del live[x]
            elif op == 'keep':
                keep = [nm for k, nm in enumerate(names) if (a >> (k % 6)) & 1 or nm == y]
                sched.keep_only([live[nm] for nm in keep])
                live = {nm: live[nm] for nm in keep}
        if {id(j) for j in sched.jobs} != {id(j) for j in live.values()}:
            res.fail('C17:members-after-edit', "after step %d (%s) members are %s, model %s"
                     % (step, op, sorted(j.v_id for j in sched.jobs), sorted(live)))
            break
        if not query:
            continue
        check_queries(sched, live, starts, res, 'after step %d (%s %s %s)' % (step, op, x, y),
                      nontrivial)
        nontrivial.append('query-after-edit')
    # ---- iterate_jobs over a tree
    tree = case.get('tree')
    if tree is not None:
        acc_jobs, acc_scheds = [], []
        with quiet():
            top = build_tree(tree, 'r', acc_jobs, acc_scheds, case['top'] if case['top'] ==
                             'pure' else 'nestable-top')
        got = list(top.iterate_jobs())
        if sorted(id(j) for j in got) != sorted(id(j) for j in acc_jobs):
            res.fail('C17:iterate_jobs', "iterate_jobs() gave %s, the tree has atomic jobs %s"
                     % ([getattr(j, 'v_id', j) for j in got], [j.v_id for j in acc_jobs]))
        got = list(top.iterate_jobs(scan_schedulers=True))
        rest = [j for j in got if j is not top]
        if len(got) - len(rest) > 1:
            res.fail('C17:iterate_jobs(scan_schedulers)', "the top scheduler appears %d times"
                     % (len(got) - len(rest)))
        if sorted(id(j) for j in rest) != sorted(id(j) for j in acc_jobs + acc_scheds):
            res.fail('C17:iterate_jobs(scan_schedulers)',
                     "iterate_jobs(scan_schedulers=True) gave %s, the tree has %s"
                     % ([getattr(j, 'v_id', j) for j in got],
                        [j.v_id for j in acc_jobs + acc_scheds]))
        if acc_scheds:
            res.label('tree-with-nested')
    for lab in set(nontrivial):
        res.label(lab)
    res.nontrivial = bool(nontrivial)
    return res


# ------------------------------------------------------------- complete enumeration
def _enum(n, chunk, nchunks):
    pairs = [(a, b) for b in range(n) for a in range(b)]
    k = 0
    for mask in range(1 << len(pairs)):
        edges = [list(p) for i, p in enumerate(pairs) if mask >> i & 1]
        for smask in range(1, 1 << n):
            k += 1
            if k % nchunks != chunk:
                continue
            starts = [i for i in range(n) if smask >> i & 1]
            for fmask in ([0] + [1 << i for i in range(n)] + [(1 << n) - 1]):
                yield dict(n=n, edges=edges, outsiders=0, out_edges=[], starts=starts,
                           forever=[bool(fmask >> i & 1) for i in range(n)],
                           hkeys=[(i * 5 + mask) % 16 for i in range(n)],
                           order=list(range(n)), top='nestable' if mask & 1 else 'pure',
                           program=[], tree=None)


def sweeps(tier):
    out = [('all DAGs on %d nodes x all start sets x forever masks' % n, 16,
            (lambda n: lambda k: _enum(n, k, 16))(n)) for n in (2, 3, 4)]
    if tier == 'thorough':
        out.append(('all DAGs on 5 nodes x all start sets x forever masks', 64,
                    lambda k: _enum(5, k, 64)))
    return out


def evaluate(case):
    from ..structural import user_stack
    with user_stack():
        try:
            return evaluate_inner(case)
        except RecursionError as exc:
            res = Result()
            res.fail('%s:recursion-error' % ID, "RecursionError with 950 stack frames available "
                     "(graph of %s nodes): %s" % (case.get('n', '?'), exc))
            return res
