"""C18 - graph surgery keeps exactly the documented jobs and preserves precedence"""

from hypothesis import strategies as st

from ..campaign import Result
from ..structural import (SJob, SSched, SPure, closure, transitive, is_acyclic, quiet,
                          STRUCT_ASSUMPTIONS, sparse_edges)

ID = 'C18'
LEVEL = 'exploration'
DESIGN_REF = 'DESIGN.md section 4, C18'
TECHNIQUE = ("model-based property testing: complete enumeration of all DAGs on <= 4 nodes "
             "(quick) / 5 nodes (thorough) x every bypass target x all start/end subsets of "
             "size <= 2 x both keep flags x keep_only subsets, and generated operation programs "
             "(<= 6 operations: surgeries, plain requires(), read-only queries in between) on "
             "random DAGs to 12 nodes; oracle = member set and "
             "transitive closure / requirement sets computed by a reference model before the "
             "call")
LEVEL_TEXT = ("exhaustive on the small spaces named by the property, generated histories "
              "beyond; after every operation members, requirements, acyclicity and closedness "
              "are compared with the model")
LEVEL_NOTE = "trusts the reference closure and the 30-line model of the three operations"
RULE = ("cases: (enumerated) DAG x operation x arguments; (generated) DAG on <= 12 nodes with "
        "hash keys and insertion order + program of bypass_and_remove / keep_only / "
        "keep_only_between operations with generated arguments passed as list / tuple / set / generator / iterator / omitted. non-trivial: a bypass target "
        "with >= 1 upstream and >= 1 downstream job, or a kept set that cuts a path (some "
        "dropped job lies between two kept ones); distinct = distinct case digest")
ASSUMPTIONS = STRUCT_ASSUMPTIONS


def budget(tier):
    return dict(examples=3000 if tier == 'quick' else 60000)


# last element: how the collection arguments are passed (all are documented Iterables):
# 0 list, 1 tuple, 2 set, 3 generator, 4 iterator
op_st = st.one_of(
    st.tuples(st.just('bypass'), st.integers(0, 40)),
    st.tuples(st.just('bypass'), st.integers(0, 40)),
    # a plain requires() between two surgeries: what one job requires must not leak into
    # another job's requirements
    st.tuples(st.just('addreq'), st.integers(0, 40), st.integers(0, 40)),
    # read-only queries between two surgeries (they make the scheduler compute its internal
    # successor links, which the next surgery must not trust blindly); not judged here
    st.tuples(st.just('query'), st.integers(0, 40)),
    st.tuples(st.just('keep'), st.integers(0, 4095), st.integers(0, 4)),
    st.tuples(st.just('between'), st.lists(st.integers(0, 40), max_size=3),
              st.lists(st.integers(0, 40), max_size=3), st.booleans(), st.booleans(),
              st.integers(0, 4)))


def as_container(items, kind):
    items = list(items)
    if kind == 1:
        return tuple(items)
    if kind == 2:
        return set(items)
    if kind == 3:
        return (x for x in items)
    if kind == 4:
        return iter(items)
    return items


@st.composite
def big_case(draw):
    seed = draw(st.integers(1, 2 ** 16))
    if draw(st.booleans()):
        n = 300
        edges = sparse_edges(n, seed)
    else:
        n = 1100
        edges = [[i, i + 1] for i in range(n - 1)]
    ops = [['between', [seed % 40], [n - 1 - seed % 40], bool(seed & 1), bool(seed & 2), seed % 5],
           ['bypass', seed % n]]
    return dict(n=n, edges=edges, hkeys=[(i * 7 + seed) % 16 for i in range(n)],
                order=sorted(range(n), key=lambda i: (i * 7919 + seed) % 1009),
                top=draw(st.sampled_from(['pure', 'nestable'])),
                program=ops[:draw(st.integers(1, 2))], big=True)


@st.composite
def cases(draw):
    if draw(st.integers(0, 299)) == 0:
        return draw(big_case())
    n = draw(st.integers(1, 12))
    density = draw(st.sampled_from([10, 25, 45]))
    edges = [[a, b] for b in range(n) for a in range(b) if draw(st.integers(0, 99)) < density]
    return dict(n=n, edges=edges, hkeys=[draw(st.integers(0, 15)) for _ in range(n)],
                order=list(draw(st.permutations(list(range(n))))),
                top=draw(st.sampled_from(['pure', 'nestable'])),
                verbose=draw(st.integers(0, 3)) == 0,
                program=[list(op) for op in draw(st.lists(op_st, min_size=1, max_size=6))])


def strategy(tier):
    return cases()


def snapshot(sched, jobs):
    names = {id(j): i for i, j in enumerate(jobs)}
    members = set()
    foreign = []
    for j in sched.jobs:
        if id(j) in names:
            members.add(names[id(j)])
        else:
            foreign.append(j)
    req = {}
    dangling = []
    for i in members:
        req[i] = set()
        for r in jobs[i].required:
            if id(r) in names and names[id(r)] in members:
                req[i].add(names[id(r)])
            else:
                dangling.append((i, names.get(id(r), '?')))
    return members, req, dangling, foreign


def evaluate_inner(case):
    res = Result()
    n = case['n']
    with quiet():
        jobs = [SJob('n%d' % i, hkey=case['hkeys'][i]) for i in range(n)]
        for a, b in case['edges']:
            jobs[b].requires(jobs[a])
        ordered = [jobs[i] for i in case['order']]
        sched = SPure('t', *ordered) if case['top'] == 'pure' else SSched('t', *ordered)
        if case.get('verbose'):
            sched.verbose = True
    members = set(range(n))
    req = {i: {a for a, b in case['edges'] if b == i} for i in range(n)}
    nontrivial = []
    for step, op in enumerate(case['program']):
        if not members:
            break
        mlist = sorted(members)
        edges = [(a, b) for b in members for a in req[b]]
        tag = "step %d %s on members %s edges %s" % (step, op, mlist, sorted(edges))
        if op[0] == 'query':
            with quiet():
                j = jobs[mlist[op[1] % len(mlist)]]
                sched.successors_downstream(j)
                sched.predecessors_upstream(j)
                list(sched.exit_jobs())
                list(sched.entry_jobs())
            continue
        if op[0] == 'addreq':
            a, b = sorted((mlist[op[1] % len(mlist)], mlist[op[2] % len(mlist)]))
            if a == b:
                continue
            with quiet():
                jobs[b].requires(jobs[a])
            req[b] = req[b] | {a}
            got_members, got_req, dangling, foreign = snapshot(sched, jobs)
            if got_req != {i: req[i] for i in members}:
                res.fail('C18:requirements-leak-after-surgery',
                         "%s: after n%d.requires(n%d) the requirements are %s, expected %s"
                         % (tag, b, a, got_req, {i: req[i] for i in members}))
                break
            continue
        if op[0] == 'bypass':
            x = mlist[op[1] % len(mlist)]
            before = transitive(members, edges)
            want_members = members - {x}
            want_closure = {(a, b) for a, b in before if a != x and b != x}
            with quiet():
                try:
                    sched.bypass_and_remove(jobs[x])
                except Exception as exc:
                    res.fail('C18:bypass-raises', "%s: %r" % (tag, exc))
                    break
            got_members, got_req, dangling, foreign = snapshot(sched, jobs)
            got_edges = [(a, b) for b in got_members for a in got_req[b]]
            if got_members != want_members or foreign:
                res.fail('C18:bypass-members', "%s: members after %s, expected %s"
                         % (tag, sorted(got_members), sorted(want_members)))
                break
            got_closure = transitive(got_members, got_edges)
            if got_closure != want_closure:
                res.fail('C18:bypass-precedence',
                         "%s: must-run-before relation changed: lost %s, new %s"
                         % (tag, sorted(want_closure - got_closure),
                            sorted(got_closure - want_closure)))
                break
            if any(a == x for a, b in edges) and any(b == x for a, b in edges):
                nontrivial.append('bypass-target-in-the-middle')
            want_req = None
        else:
            if op[0] == 'keep':
                keep = {m for k, m in enumerate(mlist) if op[1] >> (k % 12) & 1}
                extra = n + 1           # a job that is not in the scheduler is ignored
                want_members = members & keep
                with quiet():
                    try:
                        sched.keep_only(as_container(
                            [jobs[i] for i in sorted(keep)] + [SJob('stranger')],
                            op[2] if len(op) > 2 else 0))
                    except Exception as exc:
                        res.fail('C18:keep_only-raises', "%s: %r" % (tag, exc))
                        break
            else:
                starts = {mlist[s % len(mlist)] for s in op[1]}
                ends = {mlist[s % len(mlist)] for s in op[2]}
                down = closure(members, edges, starts, True) if starts else set(members)
                up = closure(members, edges, ends, False) if ends else set(members)
                want_members = down & up
                if op[3]:
                    want_members |= starts
                if op[4]:
                    want_members |= ends
                with quiet():
                    try:
                        kind = op[5] if len(op) > 5 else 0
                        kw = {}
                        # an empty milestone list may also be left out (None)
                        if starts or kind != 1:
                            kw['starts'] = as_container([jobs[i] for i in sorted(starts)], kind)
                        if ends or kind != 1:
                            kw['ends'] = as_container([jobs[i] for i in sorted(ends)], kind)
                        sched.keep_only_between(keep_starts=op[3], keep_ends=op[4], **kw)
                    except Exception as exc:
                        res.fail('C18:keep_only_between-raises', "%s: %r" % (tag, exc))
                        break
            want_req = {i: req[i] & want_members for i in want_members}
            got_members, got_req, dangling, foreign = snapshot(sched, jobs)
            if got_members != want_members or foreign:
                res.fail('C18:%s-members' % op[0],
                         "%s: members after %s (+%d foreign), expected %s"
                         % (tag, sorted(got_members), len(foreign), sorted(want_members)))
                break
            if got_req != want_req:
                res.fail('C18:%s-requirements' % op[0],
                         "%s: requirements after %s, expected %s" % (tag, got_req, want_req))
                break
            dropped = members - want_members
            before = transitive(members, edges) if len(members) <= 50 else set()
            if any((a, d) in before and (d, b) in before
                   for d in dropped for a in want_members for b in want_members):
                nontrivial.append('kept-set-cuts-a-path')
        if dangling:
            res.fail('C18:not-closed-after-%s' % op[0],
                     "%s: requirements to jobs outside the scheduler remain: %s"
                     % (tag, dangling[:5]))
            break
        with quiet():
            ok = sched.check_cycles()
        if not ok or not is_acyclic(got_members, [(a, b) for b in got_members
                                                 for a in got_req[b]]):
            res.fail('C18:cyclic-after-%s' % op[0], "%s: check_cycles()=%s" % (tag, ok))
            break
        members = got_members
        req = got_req
    for lab in set(nontrivial):
        res.label(lab)
    res.label('ops:%d' % len(case['program']))
    res.nontrivial = bool(nontrivial)
    return res


# ------------------------------------------------------------- complete enumeration
def _enum(n, chunk, nchunks):
    pairs = [(a, b) for b in range(n) for a in range(b)]
    subsets = [[]] + [[i] for i in range(n)] + [[i, j] for i in range(n) for j in range(i)]
    k = 0
    for mask in range(1 << len(pairs)):
        k += 1
        if k % nchunks != chunk:
            continue
        edges = [list(p) for i, p in enumerate(pairs) if mask >> i & 1]
        base = dict(n=n, edges=edges, hkeys=[(i * 7 + mask) % 16 for i in range(n)],
                    order=list(range(n)), top='nestable' if mask & 1 else 'pure')
        for x in range(n):
            yield dict(base, program=[['bypass', x]])
            for y in range(n - 1):
                yield dict(base, program=[['bypass', x], ['bypass', y], ['addreq', 0, 1]])
                # a query, a surgery, then a surgery that walks the graph from a start job
                yield dict(base, program=[['query', y], ['bypass', x],
                                          ['between', [y], [], True, True]])
        for keep in range(1 << n):
            yield dict(base, program=[['keep', keep]])
        for s in subsets:
            for e in subsets:
                for ks in (False, True):
                    for ke in (False, True):
                        yield dict(base, program=[['between', s, e, ks, ke]])


def sweeps(tier):
    out = [('all DAGs on %d nodes x every operation and argument' % n, 16,
            (lambda n: lambda k: _enum(n, k, 16))(n)) for n in (2, 3, 4)]
    if tier == 'thorough':
        out.append(('all DAGs on 5 nodes x every operation and argument', 64,
                    lambda k: _enum(5, k, 64)))
    return out


def evaluate(case):
    from ..structural import user_stack
    with user_stack():
        try:
            return evaluate_inner(case)
        except RecursionError as exc:
            res = Result()
            res.fail('%s:recursion-error' % ID, "RecursionError with 950 stack frames available "
                     "(graph of %s nodes): %s" % (case.get('n', '?'), exc))
            return res
