"""C15 - cycle detection is exact; topological order is a valid linear extension"""

import itertools
import re

from hypothesis import strategies as st

from ..campaign import Result
from ..structural import (SJob, SSched, SPure, is_acyclic, bounded, Loops, quiet,
                          STRUCT_ASSUMPTIONS, sparse_edges)

ID = 'C15'
LEVEL = 'exploration'
DESIGN_REF = 'DESIGN.md section 4, C15'
TECHNIQUE = ("model-based property testing against Kahn's algorithm: complete enumeration of "
             "all digraphs without self-loop on <= 4 labelled nodes (quick) / 5 nodes "
             "(thorough) at several set-iteration orders, random digraphs to 12 nodes placed at "
             "any level of a scheduler tree, and generated programs of edge additions and "
             "removals crossing between cyclic and acyclic")
LEVEL_TEXT = ("exhaustive for the small graph spaces named by the property, generated search "
              "beyond; check_cycles(), topological_order() and list() are compared with a "
              "reference on every graph")
LEVEL_NOTE = ("trusts the 20-line Kahn reference; a call still running after 10 s is reported "
              "as looping")
RULE = ("cases: (generated) trees of digraphs: top pure or nestable, up to 3 levels, each level "
        "a random digraph (cyclic or not) on <= 12 nodes with generated hash keys and "
        "insertion order, followed by a program of <= 6 edge additions/removals; in 1 case in 4 read-only closure queries are made while topological_order() is being consumed; verbose on in 1 case in 5; (enumerated) "
        "every digraph on n <= 4 (quick) or n = 5 (thorough) nodes x 3 hash-key patterns. "
        "non-trivial: a cyclic graph whose cycle is not reachable from an entry job, or a "
        "graph with >= 2 weak components, or a nested placement, or a program that crosses "
        "between cyclic and acyclic; distinct = distinct case digest")
ASSUMPTIONS = STRUCT_ASSUMPTIONS


def budget(tier):
    return dict(examples=3000 if tier == 'quick' else 120000)


@st.composite
def level(draw, depth, max_nodes):
    if depth > 0 and draw(st.integers(0, 7)) == 0:
        # an empty nested scheduler (it may well have requirements and be required)
        return dict(nodes=[], edges=[], hkeys=[], order=[])
    if depth == 0 and draw(st.integers(0, 49)) == 0:
        # a wide level, edges derived from one drawn seed
        n = draw(st.sampled_from([40, 300]))
        seed = draw(st.integers(1, 2 ** 16))
        return dict(nodes=[None] * n, edges=sparse_edges(n, seed, back=seed % 3),
                    hkeys=[(i * 7 + seed) % 16 for i in range(n)],
                    order=sorted(range(n), key=lambda i: (i * 7919 + seed) % 1009))
    n = draw(st.integers(1, max_nodes))
    kinds = []
    for _ in range(n):
        if depth < 2 and draw(st.integers(0, 9)) == 0:
            kinds.append(draw(level(depth + 1, 5)))
        else:
            kinds.append(None)
    density = draw(st.sampled_from([10, 20, 35, 60]))
    acyclic_only = draw(st.booleans())
    edges = []
    for a in range(n):
        for b in range(n):
            if a == b or (acyclic_only and a > b):
                continue
            if draw(st.integers(0, 99)) < density:
                edges.append([a, b])
    return dict(nodes=kinds, edges=edges,
                hkeys=[draw(st.integers(0, 15)) for _ in range(n)],
                order=list(draw(st.permutations(list(range(n))))))


def strategy(tier):
    return st.fixed_dictionaries(dict(
        top=st.sampled_from(['pure', 'nestable', 'nestable']),
        verbose=st.integers(0, 4).map(lambda v: v == 0),
        interleave=st.integers(0, 3).map(lambda v: v == 0),
        prehomed=st.sampled_from([0, 0, 0, 1, 2, 3]),
        tree=level(0, 12),
        program=st.lists(st.tuples(st.booleans(), st.integers(0, 11), st.integers(0, 11)),
                         max_size=6)))


class Built:
    def __init__(self):
        self.levels = []        # (scheduler, {index: object}, edges set of (a, b) names)


def precreate(spec, name, pool):
    """the atomic jobs of the whole tree, created first (they may have lived in another
    scheduler before this one)"""
    for i, sub in enumerate(spec['nodes']):
        nm = "%s.%d" % (name, i)
        if sub is None:
            pool[nm] = SJob(nm, hkey=spec['hkeys'][i])
        else:
            precreate(sub, nm, pool)


def build_level(spec, name, top_cls, built, pool=None):
    objs = []
    for i, sub in enumerate(spec['nodes']):
        nm = "%s.%d" % (name, i)
        if sub is None:
            objs.append(pool[nm] if pool else SJob(nm, hkey=spec['hkeys'][i]))
        else:
            objs.append(build_level(sub, nm, 'nestable', built, pool))
            objs[-1].v_hkey = spec['hkeys'][i]
    for a, b in spec['edges']:
        objs[b].requires(objs[a])
    ordered = [objs[i] for i in spec['order']]
    if top_cls == 'pure':
        sched = SPure(name, *ordered)
    else:
        sched = SSched(name, *ordered)
    built.levels.append((sched, objs))
    return sched


def level_edges(objs):
    index = {id(o): i for i, o in enumerate(objs)}
    return [(index[id(r)], b) for b, o in enumerate(objs) for r in o.required
            if id(r) in index]


def expected_check(sched, built_by_sched):
    objs = built_by_sched[id(sched)]
    ok = is_acyclic(range(len(objs)), level_edges(objs))
    if not ok:
        return False
    if isinstance(sched, SSched):
        for o in objs:
            if isinstance(o, SSched) and not expected_check(o, built_by_sched):
                return False
    return True


LINE = re.compile(r'^(\d+) ')


def check_level(sched, objs, res, where, nontrivial, interleave=False):
    n = len(objs)
    edges = level_edges(objs)
    acyclic = is_acyclic(range(n), edges)
    index = {id(o): i for i, o in enumerate(objs)}
    def consume():
        got = []
        raised = None
        try:
            for job in sched.topological_order():
                got.append(job)
                if len(got) > n + 2:
                    break
                if interleave:
                    # read-only queries made while the generator is being consumed
                    # (only nesting topological_order() itself is documented as
                    # unsupported)
                    sched.predecessors_upstream(job)
                    sched.successors_downstream(job)
                    list(sched.exit_jobs())
                    list(sched.entry_jobs())
        except Exception as exc:
            raised = exc
        return got, raised
    try:
        got, raised = bounded(consume)
    except Loops as exc:
        exc.res = res
        res.fail('C15:topological-order-loops', "%s: topological_order() does not come back "
                 "on %d nodes, edges %s (stopped after 1e8 lines executed in the library)"
                 % (where, n, edges))
        raise
    if acyclic:
        if raised is not None:
            res.fail('C15:topological-order-raises-on-dag',
                     "%s: acyclic graph %s but topological_order() raised %r"
                     % (where, edges, raised))
            return
        ids = [index.get(id(j)) for j in got]
        if sorted(i for i in ids if i is not None) != list(range(n)) or None in ids:
            res.fail('C15:topological-order-not-a-permutation',
                     "%s: edges %s, yielded %s (expected each of %d jobs once)"
                     % (where, edges, ids, n))
            return
        pos = {i: p for p, i in enumerate(ids)}
        for a, b in edges:
            if pos[a] > pos[b]:
                res.fail('C15:requirement-after-job',
                         "%s: edges %s, order %s puts %d before its requirement %d"
                         % (where, edges, ids, b, a))
                return
    else:
        if raised is None:
            res.fail('C15:cycle-not-reported',
                     "%s: cyclic graph %s but topological_order() ended normally after "
                     "yielding %d of %d jobs" % (where, edges, len(got), n))
        elif len(got) > n:
            res.fail('C15:too-many-jobs-yielded', "%s: %d items for %d jobs"
                     % (where, len(got), n))
        # is the cycle unreachable from the entry jobs ?
        if any(not [1 for a, b in edges if b == i] for i in range(n)):
            nontrivial.append('cycle-beside-entry-jobs')


def check_listing(sched, objs, res, where):
    """list(): each job of this level once, numbered along a topological order"""
    with quiet() as out:
        try:
            sched.list()
        except Exception as exc:
            res.fail('C15:list-raises-on-dag', "%s: list() raised %r" % (where, exc))
            return
    ids = {}
    for o in objs:
        sid = o._sched_id
        if sid is None or not sid.isdigit():
            res.fail('C15:list-id-missing', "%s: %s has id %r" % (where, o.v_id, sid))
            return
        ids[id(o)] = int(sid)
    if len(set(ids.values())) != len(objs):
        res.fail('C15:list-ids-not-unique', "%s: ids %s" % (where, sorted(ids.values())))
    for o in objs:
        for r in o.required:
            if id(r) in ids and ids[id(r)] >= ids[id(o)]:
                res.fail('C15:list-numbering-not-topological',
                         "%s: %s has id %d but its requirement %s has id %d"
                         % (where, o.v_id, ids[id(o)], r.v_id, ids[id(r)]))
                return
    text = out.getvalue()
    for o in objs:
        lines = [l for l in text.splitlines()
                 if l.startswith(o._sched_id + ' ') and '--end--' not in l]
        if len(lines) != 1:
            res.fail('C15:list-line-count', "%s: %d lines for job %s in\n%s"
                     % (where, len(lines), o.v_id, text))
            return
        m = re.search(r'requires=\{([^}]*)\}', lines[0])
        shown = sorted(m.group(1).split(', ')) if m else []
        want = sorted(r._sched_id for r in o.required if r._sched_id)
        if shown != want:
            res.fail('C15:list-requirements', "%s: line %r shows %s, requirements are %s"
                     % (where, lines[0], shown, want))
            return


def components(n, edges):
    parent = list(range(n))

    def find(x):
        while parent[x] != x:
            x = parent[x]
        return x
    for a, b in edges:
        parent[find(a)] = find(b)
    return len({find(i) for i in range(n)})


def evaluate_inner(case):
    res = Result()
    built = Built()
    nontrivial = []
    with quiet():
        pool = None
        if case.get('prehomed'):
            # history: the jobs sat in another scheduler, which was scanned, then emptied
            pool = {}
            precreate(case['tree'], 't', pool)
            former = SPure('former', *pool.values())
            for _ in range(case['prehomed']):
                former.check_cycles()           # one scan each
            for job in list(former.jobs):
                former.remove(job)
            res.label('history:jobs-came-from-another-scheduler')
        top = build_level(case['tree'], 't', case['top'], built, pool)
    if case.get('verbose'):
        for sched, _ in built.levels:
            sched.verbose = True
    by_sched = {id(s): objs for s, objs in built.levels}

    def verify(tag):
        all_acyclic = True
        for sched, objs in built.levels:
            where = "%s level %s (%s)" % (tag, sched.v_id, type(sched).__name__)
            check_level(sched, objs, res, where, nontrivial,
                        interleave=bool(case.get('interleave')))
            acyc = is_acyclic(range(len(objs)), level_edges(objs))
            all_acyclic = all_acyclic and acyc
            want = expected_check(sched, by_sched)
            try:
                with quiet():
                    got = bounded(sched.check_cycles)
            except Loops as exc:
                exc.res = res
                res.fail('C15:check-cycles-loops', "%s: check_cycles() does not come back "
                         "(stopped after 1e8 lines executed in the library)" % where)
                raise
            if got is not want:
                res.fail('C15:check-cycles-wrong',
                         "%s: check_cycles() returned %r, expected %r (own level edges %s, "
                         "acyclic=%s)" % (where, got, want, level_edges(objs), acyc))
            if components(len(objs), level_edges(objs)) >= 2 and len(objs) >= 3:
                nontrivial.append('several-components')
        if all_acyclic:
            for sched, objs in built.levels:
                if sched is top or True:
                    pass
            check_listing(top, by_sched[id(top)], res, tag + " top")
        return all_acyclic

    state = verify('initial')
    if len(built.levels) > 1:
        nontrivial.append('nested-placement')
        res.label('nested')
    # edit program on the top level
    objs = by_sched[id(top)]
    for step, (remove, a, b) in enumerate(case.get('program', ())):
        a %= len(objs)
        b %= len(objs)
        if a == b:
            continue
        if remove:
            if objs[a] not in objs[b].required:
                continue
            objs[b].requires(objs[a], remove=True)
        else:
            objs[b].requires(objs[a])
        new = verify('after step %d (%s %d->%d)' % (step, 'remove' if remove else 'add', a, b))
        if new != state:
            nontrivial.append('program-crosses-cyclic/acyclic')
        state = new
    res.label('acyclic' if state else 'cyclic')
    for lab in set(nontrivial):
        res.label(lab)
    res.nontrivial = bool(nontrivial)
    return res


# -------------------------------------------------------------- complete enumeration
_HK = {3: [(0, 1, 2), (2, 1, 0), (1, 1, 1)],
       4: [(0, 1, 2, 3), (3, 2, 1, 0), (2, 0, 3, 1)],
       5: [(0, 1, 2, 3, 4), (4, 3, 2, 1, 0), (1, 4, 0, 3, 2)],
       2: [(0, 1), (1, 0)], 1: [(0,)]}


def _enum(n, chunk, nchunks):
    pairs = [(a, b) for a in range(n) for b in range(n) if a != b]
    total = 1 << len(pairs)
    for mask in range(chunk, total, nchunks):
        edges = [list(p) for k, p in enumerate(pairs) if mask >> k & 1]
        for hk in _HK[n]:
            yield dict(top='nestable' if mask & 1 else 'pure',
                       tree=dict(nodes=[None] * n, edges=edges, hkeys=list(hk),
                                 order=list(range(n))), program=[])


def sweeps(tier):
    out = [('all digraphs on %d nodes x %d hash-key patterns' % (n, len(_HK[n])),
            16 if n >= 4 else 1, (lambda n: lambda k: _enum(n, k, 16 if n >= 4 else 1))(n))
           for n in (1, 2, 3, 4)]
    if tier == 'thorough':
        out.append(('all digraphs on 5 nodes x 3 hash-key patterns', 64,
                    lambda k: _enum(5, k, 64)))
    return out


def evaluate(case):
    from ..structural import user_stack
    with user_stack():
        try:
            return evaluate_inner(case)
        except Loops as exc:
            from ..campaign import _confirmed_hang
            _confirmed_hang.append(True)
            return exc.res
        except RecursionError as exc:
            res = Result()
            res.fail('%s:recursion-error' % ID, "RecursionError with 950 stack frames available "
                     "(graph of %s nodes): %s" % (case.get('n', '?'), exc))
            return res
