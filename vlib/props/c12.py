"""C12 - eager start: eligible jobs start immediately; a free window slot is never wasted"""

from hypothesis import strategies as st

from ..campaign import Result
from .. import strategies as S
from ..scenario import iter_specs
from ..trace import NORMAL
from ._rt import run_case, shape_labels, RT_ASSUMPTIONS, context

ID = 'C12'
LEVEL = 'exploration'
DESIGN_REF = 'DESIGN.md section 4, C12'
TECHNIQUE = ("property-based testing: generated trees with same-instant completions on a "
             "virtual-time loop; oracle = start instant equals the instant the last "
             "requirement finished (unwindowed), no free slot with an eligible waiter at any "
             "quiescent point (windowed), and a metamorphic twin: permuting insertion order, "
             "hash keys and timer tie keys leaves every job's times unchanged")
LEVEL_TEXT = ("generated search, exact virtual-time equality for unwindowed schedulers, "
              "state-based check at every instant for windowed ones, second run for the "
              "permutation relation")
LEVEL_NOTE = ("trusts the trace recorder; jobs that become eligible at the very instant their "
              "scheduler stops (expiry, critical raise, last regular job, outside "
              "cancellation) may or may not start")
RULE = ("cases: trees with several requirements of one job / of several jobs finishing in one "
        "instant 0-3 loop iterations apart, all window sizes, generated insertion and "
        "set-iteration orders; unwindowed all-success cases are re-run with permuted orders. "
        "non-trivial: a job with >= 2 requirements that ended in the same instant with "
        "different numbers of extra yields, or a windowed scheduler observed with a free slot "
        "at a quiescent instant, or a permutation twin; distinct = distinct case digest")
ASSUMPTIONS = RT_ASSUMPTIONS

PROFILE = S.GENERAL.but(p_rerun=8, 
    durations=((0, 3), (1, 6), (2, 4), (3, 2)), ks=((0, 3), (1, 2), (2, 2), (3, 2)),
    p_edge=45, p_raise=15, p_critical=15, p_forever=10, p_wild=10, p_nested=22,
    timeouts=((None, 16), (2.5, 1), (3, 1), (4.5, 1), (6, 1)),
    windows=((None, 6), (0, 1), (1, 2), (2, 3), (3, 2)))


def budget(tier):
    return dict(examples=6000 if tier == 'quick' else 150000)


def strategy(tier):
    return st.fixed_dictionaries(dict(
        scenario=S.scenarios(PROFILE),
        rekey=st.lists(st.integers(0, 63), min_size=8, max_size=8)))


def eligibility(ix, sid):
    """member id -> instant at which all its requirements had finished (None if never)"""
    begin = ix.enter(sid)
    req = ix.requirements(sid)
    out = {}
    for m in ix.members(sid):
        exits = [ix.normal_exit(r) for r in req[m['id']]]
        if any(e is None for e in exits):
            out[m['id']] = None
        else:
            out[m['id']] = max([e['t'] for e in exits], default=begin['t'])
    return out


def oracle(case, trace, ix, res, prefix='C12', focus=None):
    nontrivial = False
    all_events = trace.events
    for sp in ix.scheds():
        sid = sp['id']
        begin = ix.enter(sid)
        if begin is None or not sp['members']:
            continue
        if not ix.finite_members(sid):
            # only forever members: when such a run stops is not specified (the library
            # stops at the first completion), so eagerness cannot be judged
            res.label('outside:no-non-forever-member')
            continue
        stop = ix.stop_instant(sid)
        stop = float('inf') if stop is None else stop
        elig = eligibility(ix, sid)
        req = ix.requirements(sid)
        if not sp['window']:
            for m in sp['members']:
                mid = m['id']
                t_elig = elig[mid]
                if t_elig is None or (focus is not None and not focus(sid, mid)):
                    continue
                en = ix.enter(mid)
                if en is not None:
                    if en['t'] != t_elig:
                        res.fail(prefix + ':late-start',
                                 "unwindowed scheduler %s: %s starts at t=%s although its last "
                                 "requirement finished at t=%s" % (sid, mid, en['t'], t_elig),
                                 context(ix))
                elif t_elig < stop:
                    res.fail(prefix + ':eligible-job-never-started',
                             "unwindowed scheduler %s: every requirement of %s had finished at "
                             "t=%s, the scheduler went on until t=%s, yet %s never started"
                             % (sid, mid, t_elig, stop, mid), context(ix))
                if len(req[mid]) >= 2 and en is not None:
                    exits = [ix.normal_exit(r) for r in req[mid]]
                    if len({e['t'] for e in exits}) == 1 and \
                            len({ix.specs[r].get('k') for r in req[mid]}) >= 2:
                        nontrivial = True
                        res.label('join:same-instant-different-iterations')
        else:
            # state at the end of every instant strictly inside the main phase
            ids = {m['id'] for m in sp['members']}
            evs = [e for e in all_events if e['who'] in ids]
            instants = sorted({e['t'] for e in all_events
                               if begin['t'] <= e['t'] < stop})
            for t in instants:
                running = 0
                entered = set()
                for e in evs:
                    if e['t'] > t:
                        break
                    if e['kind'] in ('enter', 'run-begin'):
                        running += 1
                        entered.add(e['who'])
                    elif e['kind'] in ('exit', 'run-exit'):
                        running -= 1
                if running >= sp['window']:
                    continue
                waiting = [mid for mid in ids
                           if mid not in entered and elig[mid] is not None and elig[mid] <= t
                           and (focus is None or focus(sid, mid))]
                nontrivial = True
                res.label('window:free-slot-observed')
                if waiting:
                    res.fail(prefix + ':free-slot-wasted',
                             "scheduler %s (jobs_window=%s): at the end of instant t=%s only "
                             "%d job(s) run but %s is/are eligible and not started"
                             % (sid, sp['window'], t, running, sorted(waiting)), context(ix))
                    break
    return nontrivial


def permutable(case, ix):
    for sp, parent, _ in iter_specs(case):
        if sp['kind'] == 'sched':
            if sp['window'] or sp['timeout'] is not None:
                return False
            if ix.enter(sp['id']) is not None and ix.verdict(sp['id'])['kind'] != 'success':
                return False
    return True


def forever_tie(ix):
    for sp in ix.scheds():
        sid = sp['id']
        if ix.enter(sid) is None or not any(m['forever'] for m in sp['members']):
            continue
        last = ix.last_finite_exit(sid)
        if last is None:
            continue
        elig = eligibility(ix, sid)
        for m in sp['members']:
            if m['forever'] and elig[m['id']] is not None and elig[m['id']] == last['t']:
                return True
            # ... or that ENDS at that very instant: a few loop iterations earlier or later it
            # is cancelled instead, and may take time to honour that
            ex = ix.exit(m['id'])
            if m['forever'] and ex is not None and ex['how'] in NORMAL and ex['t'] == last['t']:
                return True
    return False


def rekeyed(case, rekey):
    new = S.clone(case)
    n = 0
    for sp, _, _ in iter_specs(new):
        a = rekey[n % len(rekey)]
        b = rekey[(n + 3) % len(rekey)]
        n += 1
        sp['hkey'] = (sp['hkey'] + a) % 16
        sp['tkey'] = (sp['tkey'] + b) % 4
        if sp['kind'] == 'sched':
            size = len(sp['members'])
            sp['order'] = sorted(range(size),
                                 key=lambda i: ((i + 1) * (a + 7) * 2654435761 + b) % 1013)
            sp['build'] = ('ctor', 'add', 'update', 'mixed')[b % 4]
    return new


def facts(ix):
    """(enter t, exit how, exit t) of every non-forever atomic job without forever ancestor"""
    out = {}
    # relative to the beginning of the judged run (a second run starts whenever the first
    # one was over, which may depend on the orders)
    begin = ix.enter(ix.spec['id'])
    t0 = begin['t'] if begin else 0

    def rec(sp, tainted):
        for m in sp['members']:
            t = tainted or m['forever']
            if m['kind'] == 'sched':
                rec(m, t)
            elif not t:
                en, ex = ix.enter(m['id']), ix.exit(m['id'])
                out[m['id']] = (en['t'] - t0 if en else None, ex['how'] if ex else None,
                                ex['t'] - t0 if ex else None)
    rec(ix.spec, False)
    return out


def evaluate(case):
    res = Result()
    scenario = case['scenario'] if 'scenario' in case else case
    trace, ix = run_case(scenario, run_on=False)
    shape_labels(scenario, trace, res)
    res.nontrivial = oracle(scenario, trace, ix, res)
    if 'rekey' in case and ix.terminated() and permutable(scenario, ix):
        twin = rekeyed(scenario, case['rekey'])
        ttrace, tix = run_case(twin, run_on=False)
        res.executions += 1
        res.label('permutation-twin')
        res.nontrivial = True
        a, b = facts(ix), facts(tix)
        diff = [(k, a[k], b[k]) for k in sorted(a) if a[k] != b[k]]
        if (diff or ttrace.outcome != trace.outcome) and (
                forever_tie(ix) or forever_tie(tix)):
            # a forever job that becomes eligible - or that ends - at the very instant its
            # scheduler has finished may or may not start / be cancelled (C09 leaves it
            # open); if it takes time to honour its cancellation, everything behind that
            # scheduler moves with it
            res.label('twin:forever-job-eligible-at-the-stop-instant')
            diff = []
            ttrace.outcome = trace.outcome
        if diff or ttrace.outcome != trace.outcome:
            res.fail('C12:insertion-order-changes-when-jobs-run',
                     "permuting insertion order / hash keys / tie keys changes (enter, exit, "
                     "exit time) of %s ; outcomes %s vs %s" % (diff[:4], trace.outcome,
                                                              ttrace.outcome), context(ix))
            res.replay_case = dict(scenario=scenario, rekey=case['rekey'])
    res.sample = dict(outcome=trace.outcome, events=len(trace.events))
    return res


def sweeps(tier):
    # deterministic part: flat schedulers of 9 .. 1025 members (just above powers of two)
    return [S.ladder_sweep(['plain'])]
