"""C13 - shutdown reaches every job exactly once, at its scheduler's end, in bounded time"""

from hypothesis import strategies as st

from ..campaign import Result
from .. import strategies as S
from .. import phases
from ._rt import run_case, shape_labels, RT_ASSUMPTIONS, context
from . import c11

ID = 'C13'
LEVEL = 'exploration'
DESIGN_REF = 'DESIGN.md section 4, C13'
TECHNIQUE = ("property-based testing: generated trees x exit paths x handler durations x "
             "shutdown_timeout values on a virtual-time loop, plus the crash-point sweep of "
             "C11 (an ancestor ended at every instant of a nested run); oracle = per-job "
             "co_shutdown counters, instants of handler starts, straggler cancel requests at "
             "shutdown begin + shutdown_timeout, return value of co_shutdown(), an explicit "
             "shutdown() after the run")
LEVEL_TEXT = ("generated search with exact virtual-time oracles over the shutdown phase of "
              "every scheduler run that ended by itself; the sweep enumerates the instants at "
              "which an enclosing scheduler ends")
LEVEL_NOTE = ("trusts the trace recorder; handler duration equal to shutdown_timeout is a tie "
              "accepted both ways; co_shutdown handlers that raise are unspecified and not "
              "generated")
RULE = ("cases: generated trees with non-zero handler durations and every shutdown_timeout "
        "(None, 0, 1, 2, 3); half of them also go through the C11 sweep (one execution per "
        "instant). non-trivial: a run that did not end in success and has both a "
        "never-started and a cancelled member, or a handler longer than its "
        "shutdown_timeout, or a nested run that never ended by itself; distinct = distinct "
        "case digest")
ASSUMPTIONS = RT_ASSUMPTIONS

PROFILE = S.GENERAL.but(
    p_nested=30, force_nested=60, max_members=4, p_raise=20, p_critical=40, p_forever=12, p_wild=30,
    sds=((0, 3), (1, 3), (2, 2), (3, 2), (4, 1)),
    sdts=((None, 2), (0, 2), (1, 3), (2, 2), (3, 1)),
    cs=((0, 4), (1, 2), (2, 1)))


def budget(tier):
    return dict(examples=4000 if tier == 'quick' else 60000)


def strategy(tier):
    return st.fixed_dictionaries(dict(scenario=S.scenarios(PROFILE),
                                      pick=st.integers(0, 50), mech=st.integers(0, 3)))


def shutdown_oracle(case, trace, ix, res, tag=''):
    """the C13 clauses on one run (with explicit shutdown() afterwards)"""
    everything = trace.events + trace.late_events
    extra = trace.explicit_shutdown['events'] if trace.explicit_shutdown else []
    sd_enters = {}
    for ev in everything + extra:
        if ev['kind'] == 'sd-enter':
            sd_enters.setdefault(ev['who'], []).append(ev)
    for sp in ix.scheds():
        sid = sp['id']
        v = ix.verdict(sid)
        if v['kind'] in ('none', 'cancelled'):
            continue
        rex = v['ev']
        # ---- every job of the subtree has received co_shutdown() exactly once by now
        for x in ix.subtree_ids(sid):
            if ix.is_sched(x):
                continue
            n = sum(1 for e in sd_enters.get(x, ()) if e['seq'] < rex['seq'])
            if n != 1:
                res.fail('C13:shutdown-count-at-run-end',
                         "%s %s has received co_shutdown() %d time(s) when the run of %s ends "
                         "(%s) at t=%s" % (tag, x, n, sid, v['kind'], rex['t']), context(ix))
        an = phases.analyse(ix, sid)
        if an is None:
            continue
        for clause, msg in an['findings']:
            if clause in ('no-shutdown-phase', 'shutdown-phase-begins-at-wrong-instant',
                          'run-ends-at-wrong-instant'):
                res.fail('C13:' + clause, tag + ' ' + msg, context(ix))
        if not an['cosd']:
            continue
        sd0 = an['cosd'][0]
        cosd_exit = [e for e in ix.evs(sid, 'cosd-exit') if e['seq'] > sd0['seq']]
        # ---- handlers of direct atomic members start when the shutdown phase begins
        for m in sp['members']:
            if m['kind'] != 'job':
                continue
            mine = [e for e in sd_enters.get(m['id'], ()) if sd0['seq'] < e['seq'] < rex['seq']]
            for e in mine:
                if e['t'] != sd0['t']:
                    res.fail('C13:handler-starts-late',
                             "%s handler of %s starts at t=%s, shutdown phase of %s began at "
                             "t=%s" % (tag, m['id'], e['t'], sid, sd0['t']), context(ix))
        # ---- stragglers: cancelled exactly at shutdown begin + shutdown_timeout
        exp = an['stragglers']
        lo = sd0['seq']
        hi = cosd_exit[0]['seq'] if cosd_exit else rex['seq']
        cancelled = {}
        for m in sp['members']:
            for e in ix.cancel_reqs(m['id'], tkind='shutdown'):
                if lo < e['seq'] < hi:
                    cancelled.setdefault(m['id'], e)
        for mid in exp['must']:
            if mid not in cancelled:
                res.fail('C13:straggler-not-cancelled',
                         "%s the handler of %s outlasts shutdown_timeout=%s of %s but is not "
                         "cancelled" % (tag, mid, sp['sdt'], sid), context(ix))
        for mid, e in cancelled.items():
            if mid not in exp['must'] and mid not in exp['may']:
                res.fail('C13:handler-cancelled-early',
                         "%s the handler of %s is cancelled at t=%s although it fits in "
                         "shutdown_timeout=%s of %s" % (tag, mid, e['t'], sp['sdt'], sid),
                         context(ix))
            elif e['t'] != sd0['t'] + sp['sdt']:
                res.fail('C13:straggler-cancelled-at-wrong-instant',
                         "%s the handler of %s is cancelled at t=%s, expected %s"
                         % (tag, mid, e['t'], sd0['t'] + sp['sdt']), context(ix))
        if cosd_exit:
            value = cosd_exit[0].get('obj')
            if cosd_exit[0]['how'] != 'return' or value is not (not cancelled):
                res.fail('C13:co_shutdown-return-value',
                         "%s co_shutdown() of %s gave %s (%s) although %s handler(s) had to "
                         "be cancelled" % (tag, sid, value, cosd_exit[0]['how'],
                                           len(cancelled)), context(ix))
        if cancelled:
            res.label('straggler-cancelled')
    # ---- never while a job of the same scheduler is still running
    running = {}
    parent_of = {m['id']: sp['id'] for sp in ix.scheds() for m in sp['members']}
    for ev in everything:
        who = ev['who']
        if ev['kind'] in ('enter', 'run-begin') and who in parent_of:
            running.setdefault(parent_of[who], set()).add(who)
        elif ev['kind'] in ('exit', 'run-exit') and who in parent_of:
            running.get(parent_of[who], set()).discard(who)
        elif ev['kind'] == 'sd-enter' and who in parent_of:
            alive = running.get(parent_of[who])
            if alive:
                res.fail('C13:shutdown-while-sibling-running',
                         "%s %s receives co_shutdown() at t=%s while %s of the same scheduler "
                         "%s still run(s)" % (tag, who, ev['t'], sorted(alive),
                                              parent_of[who]), context(ix))
    # ---- at the very end: exactly once, and an explicit shutdown() sends nothing more
    if ix.terminated():
        top_ended = ix.verdict(case['id'])['kind'] not in ('none', 'cancelled')
        for x, sp in ix.specs.items():
            if sp['kind'] != 'job':
                continue
            n_run = len([e for e in sd_enters.get(x, ()) if e in everything])
            n_all = len(sd_enters.get(x, ()))
            if n_run > 1:
                res.fail('C13:shutdown-more-than-once',
                         "%s %s received co_shutdown() %d times" % (tag, x, n_run),
                         context(ix))
            if n_all != n_run:
                res.fail('C13:explicit-shutdown-sends-again',
                         "%s %s received co_shutdown() again from the explicit shutdown() "
                         "after the run" % (tag, x), context(ix))
        if trace.explicit_shutdown and trace.explicit_shutdown.get('how') != 'return':
            res.fail('C13:explicit-shutdown-fails', "%s shutdown() after the run: %s"
                     % (tag, {k: v for k, v in trace.explicit_shutdown.items()
                              if k != 'events'}), context(ix))


def nontrivial_of(ix, res):
    hit = False
    for sp in ix.scheds():
        sid = sp['id']
        v = ix.verdict(sid)
        if v['kind'] in ('timeout', 'critical'):
            never = any(not ix.created(m['id']) for m in sp['members'])
            canc = any(ix.cancel_reqs(m['id']) for m in sp['members'])
            if never and canc:
                hit = True
                res.label('failed-run:never-started+cancelled')
        if v['kind'] == 'cancelled':
            hit = True
            res.label('nested-run-never-ended-by-itself')
        if v['kind'] == 'none' and ix.parent[sid] is not None:
            res.label('nested-run-never-started')
        if sp['sdt'] is not None and any(
                m['kind'] == 'job' and m['sd'] > sp['sdt'] for m in sp['members']) \
                and v['kind'] not in ('none', 'cancelled'):
            hit = True
            res.label('handler-longer-than-shutdown_timeout')
    return hit


def one_run(case, res, tag):
    trace, ix = run_case(case, run_on=True, explicit_shutdown=True)
    before = len(res.violations)
    shutdown_oracle(case, trace, ix, res, tag)
    if len(res.violations) > before and res.replay_case is None:
        res.replay_case = case
    return trace, ix


def evaluate(case):
    res = Result()
    if 'scenario' not in case:
        trace, ix = one_run(case, res, 'run:')
        shape_labels(case, trace, res)
        res.nontrivial = nontrivial_of(ix, res)
        res.replay_case = None
        return res
    base = case['scenario']
    trace, ix = one_run(base, res, 'base run:')
    shape_labels(base, trace, res)
    res.nontrivial = nontrivial_of(ix, res)
    pairs = c11.pairs_of(base)
    mech = case['mech']
    if pairs and mech < 3 and ix.terminated() and not res.violations:
        nid, aid = pairs[case['pick'] % len(pairs)]
        b_anc, b_n = ix.enter(aid), ix.enter(nid)
        if b_anc is not None and b_n is not None:
            e_n = ix.exit(nid)
            r = max(0.0, b_n['t'] - b_anc['t'] - 0.5)
            hi = (e_n['t'] if e_n is not None else trace.t_end) - b_anc['t'] + 1
            while r <= hi:
                mod = c11.modified(base, nid, aid, mech, r)
                _, mix = one_run(mod, res, '%s ended by %s at +%s:' % (
                    aid, ('its timeout', 'a critical raise', 'its last regular job')[mech], r))
                res.executions += 1
                if nontrivial_of(mix, res):
                    res.nontrivial = True
                r += 0.5
            res.label('sweep:mechanism-%d' % mech)
    res.sample = dict(outcome=trace.outcome, executions=res.executions)
    return res


def sweeps(tier):
    # deterministic part: flat schedulers of 9 .. 1025 members (just above powers of two)
    return [S.ladder_sweep(['critical', 'timeout'])]
