"""C03 - progress: a run that can finish does finish; failures and windows never wedge it"""

from ..campaign import Result
from .. import strategies as S
from ._rt import run_case, shape_labels, RT_ASSUMPTIONS, context

ID = 'C03'
LEVEL = 'exploration'
DESIGN_REF = 'DESIGN.md section 4, C03'
TECHNIQUE = ("property-based testing: generator of admissible scheduler trees (premise "
             "enforced by construction), run on a virtual-time loop where a hang is an "
             "observable outcome (Deadlock = nothing ready and no timer armed; Horizon = "
             "clock beyond twice the sum of all durations)")
LEVEL_TEXT = ("generated search over admissible trees, raise subsets, windows and timeouts; "
              "liveness is decided per case because the harness owns the clock; bounded "
              "sizes, no proof")
LEVEL_NOTE = ("trusts the virtual-time loop's deadlock/horizon detection and the generator's "
              "admissibility construction (re-checked on every case by is_admissible)")
RULE = ("cases: admissible trees (every scheduler without timeout owns a non-forever job; "
        "never-ending jobs are forever-flagged, never required by non-forever jobs, fewer "
        "than their window; anything goes under a timeout), any subset of jobs raising, "
        "windows 1..3 favoured. non-trivial: a windowed scheduler in which a job raised while "
        "another member had not started yet, or a never-ending forever job that held a "
        "window slot, or a timeout that cut a never-ending non-forever job; distinct = "
        "distinct scenario digest")
ASSUMPTIONS = RT_ASSUMPTIONS

PROFILE = S.GENERAL.but(p_block=15, p_rerun=8, allow_empty=False, p_raise=35, p_critical=25, p_forever=18,
                        windows=((None, 3), (1, 4), (2, 3), (3, 2), (4, 1)),
                        p_edge=40, p_wild=40)


def budget(tier):
    return dict(examples=8000 if tier == 'quick' else 200000)


def strategy(tier):
    return S.scenarios(PROFILE)


def oracle(case, trace, ix, res):
    how = trace.outcome['how']
    if not S.is_admissible(case):
        res.inconclusive = 'premise-not-met'
        return
    if how == 'deadlock':
        res.fail('C03:deadlock', "run() never returns: nothing is ready and no timer is "
                 "armed at t=%s" % trace.t_end, context(ix)[-40:])
    elif how == 'horizon':
        res.fail('C03:livelock', "run() still going on at the horizon t=%s" % trace.t_end,
                 context(ix)[-40:])
    elif how == 'raise' and trace.outcome.get('etype') == 'ValueError' \
            and 'empty' in trace.outcome.get('msg', ''):
        res.fail('C03:stuck-wait-on-nothing', "run() raised %s(%s): the main loop has nothing "
                 "left to wait for although jobs remain" % (trace.outcome['etype'],
                                                            trace.outcome['msg']),
                 context(ix)[-40:])
    # non-triviality
    for sp in ix.scheds():
        sid = sp['id']
        if ix.enter(sid) is None:
            continue
        if sp['window']:
            raises = [ix.exit(m['id']) for m in sp['members']]
            raises = [e for e in raises if e is not None and e['how'] == 'raise']
            for ev in raises:
                for m in sp['members']:
                    en = ix.enter(m['id'])
                    if en is None or en['seq'] > ev['seq']:
                        res.nontrivial = True
                        res.label('window:raise-with-members-not-started')
                        break
            for m in sp['members']:
                if m['forever'] and S.may_never_end(m) and ix.enter(m['id']) is not None:
                    res.nontrivial = True
                    res.label('window:never-ending-forever-job-holds-slot')
        if sp['timeout'] is not None:
            for m in sp['members']:
                if not m['forever'] and S.may_never_end(m) and ix.enter(m['id']) is not None:
                    res.nontrivial = True
                    res.label('timeout-cuts-never-ending-job')


def evaluate_one(case):
    res = Result()
    trace, ix = run_case(case, run_on=False)
    shape_labels(case, trace, res)
    oracle(case, trace, ix, res)
    res.sample = dict(outcome=trace.outcome, t_end=trace.t_end, events=len(trace.events))
    return res


from ._rt import with_variants                     # noqa: E402
evaluate = with_variants(evaluate_one)


def sweeps(tier):
    # deterministic part: flat schedulers of 9 .. 1025 members (just above powers of two)
    return [S.ladder_sweep(['critical', 'timeout', 'forever'])]
