"""C09 - forever jobs are never waited for and never outlive the run"""

from ..campaign import Result
from .. import strategies as S
from ..trace import NORMAL
from ._rt import library_job_anomalies, run_case, shape_labels, RT_ASSUMPTIONS, phase_oracle, context

ID = 'C09'
LEVEL = 'exploration'
DESIGN_REF = 'DESIGN.md section 4, C09'
TECHNIQUE = ("property-based testing: generated trees with forever jobs (never-ending, ending "
             "before/at/after the last regular job, in the middle of the graph, nested) on a "
             "virtual-time loop; oracle = cancel requests exactly at the instant of the last "
             "non-forever exit, phase chaining, release of successors of forever jobs that end, "
             "eager start of forever members (the C12 oracle restricted to them), no body "
             "of a forever job left in the loop after run(); second runs of the same objects "
             "(main phase only)")
LEVEL_TEXT = ("generated search with exact virtual-time comparison of the stop instant, the "
              "cancel requests and the end of the run")
LEVEL_NOTE = ("trusts the trace recorder; schedulers without any non-forever member are "
              "outside the statement and only counted")
RULE = ("cases: trees with 1-3 forever jobs per level. non-trivial: a successful run at whose "
        "stop instant one forever member was running and another one was not started, queued "
        "or already ended; or a forever job that ended and released a successor; distinct = "
        "distinct scenario digest")
ASSUMPTIONS = RT_ASSUMPTIONS

PROFILE = S.GENERAL.but(p_rerun=8, p_cexc=15, p_forever=38, p_never=50, p_sched_forever=25, p_nested=24,
                        p_raise=10, p_critical=25, p_edge=32, p_wild=15,
                        timeouts=((None, 8), (2.5, 2), (3, 1), (4, 2), (4.5, 1), (6, 2), (8, 1)),
                        cs=((0, 3), (1, 3), (2, 2)),
                        windows=((None, 5), (0, 1), (2, 2), (3, 2), (4, 1)))


def budget(tier):
    return dict(examples=6000 if tier == 'quick' else 150000)


def strategy(tier):
    return S.scenarios(PROFILE)


def evaluate_one(case):
    res = Result()
    trace, ix = run_case(case, run_on=False)
    shape_labels(case, trace, res)
    library_job_anomalies(trace, res, 'C09')
    if not ix.terminated():
        res.inconclusive = 'nonterminating'
    hits = phase_oracle(ID, 'success', ix, trace, res)
    for sp, an in hits:
        fe = [m for m in sp['members'] if m['forever']]
        if not fe:
            continue
        res.label('success-with-forever-members')
        running = others = 0
        for m in fe:
            en, ex = ix.enter(m['id']), ix.exit(m['id'])
            if en is not None and (ex is None or ex['how'].startswith('cancelled')):
                running += 1
            else:
                others += 1
        if running and others:
            res.nontrivial = True
            res.label('stop:forever-running+other')
        # a forever member that ends releases its successors (unwindowed: at that instant)
        req = ix.requirements(sp['id'])
        for m in sp['members']:
            mid = m['id']
            rs = req[mid]
            if not rs or not any(ix.specs[r]['forever'] for r in rs):
                continue
            exits = [ix.normal_exit(r) for r in rs]
            if any(e is None for e in exits):
                continue
            t_elig = max(e['t'] for e in exits)
            if t_elig >= an['tau']:
                continue
            en = ix.enter(mid)
            created = ix.created(mid)
            if not created:
                res.fail('C09:successor-of-ended-forever-job-not-released',
                         "scheduler %s: %s requires forever job(s) that ended (all its "
                         "requirements were over at t=%s, the run stopped at t=%s) but it was "
                         "never scheduled" % (sp['id'], mid, t_elig, an['tau']), context(ix))
            elif not sp['window'] and (en is None or en['t'] != t_elig):
                res.fail('C09:successor-of-ended-forever-job-late',
                         "scheduler %s: %s should start at t=%s, started at %s"
                         % (sp['id'], mid, t_elig, en['t'] if en else None), context(ix))
            else:
                res.nontrivial = True
                res.label('forever-job-ended-and-released-successor')
    # "never outlive the run": once run() is over no body of a forever job (or of a job of a
    # forever nested scheduler) is left unfinished in the loop
    if ix.terminated():
        def under_forever(who):
            while who is not None and who in ix.specs:
                if ix.specs[who].get('forever'):
                    return True
                parent = ix.parent.get(who)
                who = parent['id'] if parent is not None else None
            return False
        left = [u for u in trace.unfinished if u['tkind'] == 'body' and under_forever(u['who'])]
        if left:
            res.fail('C09:forever-job-outlives-the-run',
                     "after run() was over the loop still holds the unfinished body task(s) of "
                     "%s" % (left[:4],), context(ix))
    # "until then forever jobs start under the same requirement and window rules as any job":
    # the eager-start oracle of C12, restricted to forever members
    from . import c12
    if c12.oracle(case, trace, ix, res, prefix='C09:forever-job',
                  focus=lambda sid, mid: bool(ix.specs[mid]['forever'])):
        res.label('forever-job-start-judged')
    for sp in ix.scheds():
        if sp['members'] and not ix.finite_members(sp['id']):
            res.label('outside:no-non-forever-member')
    res.sample = dict(outcome=trace.outcome,
                      stops=[dict(sched=sp['id'], tau=an['tau'], end=an['rex']['t'] if an['rex'] else None)
                             for sp, an in hits if any(m['forever'] for m in sp['members'])])
    return res


from ._rt import with_variants                     # noqa: E402
evaluate = with_variants(evaluate_one)


def sweeps(tier):
    # deterministic part: flat schedulers of 9 .. 1025 members (just above powers of two)
    return [S.ladder_sweep(['forever'])]
