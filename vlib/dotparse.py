"""An independent tokenizer / parser for the subset of the DOT language that matters here
(https://graphviz.org/doc/info/lang.html): digraph, nested subgraphs, node statements, edge
statements with '->', attribute lists separated by ',', ';' or blanks, `ID = ID`
statements, numerals, identifiers and double-quoted strings in which only \\" is an
escape."""

import re

TOKEN = re.compile(r'''
    (?P<ws>\s+)
  | (?P<arrow>->)
  | (?P<punct>[{}\[\];,=])
  | (?P<quoted>"(?:[^"\\]|\\.)*")
  | (?P<numeral>-?(?:\.[0-9]+|[0-9]+(?:\.[0-9]*)?))(?![A-Za-z_])
  | (?P<ident>[A-Za-z_\200-\377][A-Za-z_0-9\200-\377]*)
''', re.X | re.S)


class DotError(Exception):
    pass


def tokenize(text):
    pos = 0
    out = []
    while pos < len(text):
        m = TOKEN.match(text, pos)
        if not m:
            raise DotError("bad character %r at offset %d: ...%r" % (text[pos], pos,
                                                                    text[max(0, pos - 20):pos + 20]))
        pos = m.end()
        kind = m.lastgroup
        if kind == 'ws':
            continue
        out.append((kind, m.group(kind)))
    return out


def unquote(tok):
    kind, text = tok
    if kind == 'quoted':
        return text[1:-1].replace('\\"', '"')
    return text


class Graph:
    def __init__(self, name, parent=None):
        self.name = name
        self.parent = parent
        self.attrs = {}         # from `graph [...]` and `ID = ID` statements
        self.nodes = {}         # id -> attrs, node statements written in this (sub)graph
        self.node_count = {}    # id -> number of node statements
        self.subgraphs = []
        self.edges = []         # (tail, head, attrs)

    def all_graphs(self):
        yield self
        for g in self.subgraphs:
            yield from g.all_graphs()


class Parser:
    def __init__(self, text):
        self.toks = tokenize(text)
        self.i = 0

    def peek(self):
        return self.toks[self.i] if self.i < len(self.toks) else (None, None)

    def next(self):
        tok = self.peek()
        if tok[0] is None:
            raise DotError("unexpected end of text")
        self.i += 1
        return tok

    def expect(self, text):
        tok = self.next()
        if tok[1] != text:
            raise DotError("expected %r, found %r (token %d)" % (text, tok[1], self.i))

    def is_id(self, tok):
        return tok[0] in ('quoted', 'numeral', 'ident')

    def parse(self):
        tok = self.next()
        if tok[1] == 'strict':
            tok = self.next()
        if tok[1] != 'digraph':
            raise DotError("expected 'digraph', found %r" % (tok[1],))
        name = None
        if self.is_id(self.peek()):
            name = unquote(self.next())
        g = Graph(name)
        self.body(g)
        if self.peek()[0] is not None:
            raise DotError("text after the closing brace: %r" % (self.peek()[1],))
        return g

    def body(self, g):
        self.expect('{')
        while True:
            tok = self.peek()
            if tok[0] is None:
                raise DotError("missing closing brace")
            if tok[1] == '}' and tok[0] == 'punct':
                self.next()
                return
            if tok[1] == ';' and tok[0] == 'punct':
                self.next()
                continue
            self.statement(g)

    def attr_list(self):
        attrs = {}
        while self.peek() == ('punct', '['):
            self.next()
            while True:
                tok = self.next()
                if tok == ('punct', ']'):
                    break
                if tok in (('punct', ','), ('punct', ';')):
                    continue
                if not self.is_id(tok):
                    raise DotError("attribute name expected, found %r" % (tok[1],))
                self.expect('=')
                val = self.next()
                if not self.is_id(val):
                    raise DotError("attribute value expected, found %r" % (val[1],))
                attrs[unquote(tok)] = unquote(val)
        return attrs

    def statement(self, g):
        tok = self.next()
        if tok == ('ident', 'subgraph'):
            name = unquote(self.next()) if self.is_id(self.peek()) else None
            sub = Graph(name, g)
            g.subgraphs.append(sub)
            self.body(sub)
            return
        if tok[0] == 'ident' and tok[1] in ('graph', 'node', 'edge') \
                and self.peek() == ('punct', '['):
            attrs = self.attr_list()
            if tok[1] == 'graph':
                g.attrs.update(attrs)
            return
        if not self.is_id(tok):
            raise DotError("statement expected, found %r" % (tok[1],))
        first = unquote(tok)
        if self.peek() == ('punct', '='):
            self.next()
            val = self.next()
            if not self.is_id(val):
                raise DotError("value expected after '='")
            g.attrs[first] = unquote(val)
            return
        chain = [first]
        while self.peek() == ('arrow', '->'):
            self.next()
            nxt = self.next()
            if not self.is_id(nxt):
                raise DotError("node id expected after '->', found %r" % (nxt[1],))
            chain.append(unquote(nxt))
        attrs = self.attr_list()
        if len(chain) == 1:
            g.nodes.setdefault(first, {}).update(attrs)
            g.node_count[first] = g.node_count.get(first, 0) + 1
        else:
            for a, b in zip(chain, chain[1:]):
                g.edges.append((a, b, attrs))


def parse(text):
    return Parser(text).parse()
