"""
Index over a Trace + the scenario it came from; shared vocabulary of the timed oracles.

    enter(x)   first body-enter of an atomic job / run-begin of a scheduler
    exit(x)    first body exit / run-exit (how = return | raise | cancelled)
    normal(x)  exit with how in (return, raise)
"""

from .scenario import iter_specs

NORMAL = ('return', 'raise')


class Index:
    def __init__(self, spec, trace):
        self.spec = spec
        self.trace = trace
        self.events = trace.events
        self.specs = {}         # id -> spec
        self.parent = {}        # id -> parent spec (None for top)
        self.depth = {}
        for sp, parent, depth in iter_specs(spec):
            self.specs[sp['id']] = sp
            self.parent[sp['id']] = parent
            self.depth[sp['id']] = depth
        self.by = {}
        for ev in self.events:
            self.by.setdefault(ev['who'], []).append(ev)
        self._cache = {}

    # ---- per object
    def evs(self, who, kind=None, **match):
        out = []
        for ev in self.by.get(who, ()):
            if kind is not None and ev['kind'] != kind:
                continue
            if any(ev.get(k) != v for k, v in match.items()):
                continue
            out.append(ev)
        return out

    def is_sched(self, who):
        return self.specs[who]['kind'] == 'sched'

    def enters(self, who):
        return self.evs(who, 'run-begin' if self.is_sched(who) else 'enter')

    def exits(self, who):
        return self.evs(who, 'run-exit' if self.is_sched(who) else 'exit')

    def enter(self, who):
        evs = self.enters(who)
        return evs[0] if evs else None

    def exit(self, who):
        evs = self.exits(who)
        return evs[0] if evs else None

    def normal_exit(self, who):
        ev = self.exit(who)
        return ev if ev is not None and ev['how'] in NORMAL else None

    def created(self, who, tkind='body'):
        return self.evs(who, 'task-created', tkind=tkind)

    def cancel_reqs(self, who, tkind='body'):
        return self.evs(who, 'cancel-req', tkind=tkind)

    # ---- per scheduler
    def scheds(self):
        return [sp for sp in self.specs.values() if sp['kind'] == 'sched']

    def members(self, sid):
        return self.specs[sid]['members']

    def requirements(self, sid):
        """member id -> list of ids it requires (same scheduler)"""
        sp = self.specs[sid]
        mem = sp['members']
        req = {m['id']: [] for m in mem}
        for i, j in sp['edges']:
            req[mem[j]['id']].append(mem[i]['id'])
        return req

    def subtree_ids(self, sid, include_self=False):
        out = [sid] if include_self else []
        for m in self.specs[sid].get('members', ()):
            out.append(m['id'])
            if m['kind'] == 'sched':
                out.extend(self.subtree_ids(m['id']))
        return out

    def t_abs(self, sid):
        sp = self.specs[sid]
        begin = self.enter(sid)
        if sp['timeout'] is None or begin is None:
            return None
        return begin['t'] + sp['timeout']

    def critical_raises(self, sid):
        """raise exits of critical direct members, in sequence order"""
        out = []
        for m in self.members(sid):
            if m['critical']:
                ev = self.exit(m['id'])
                if ev is not None and ev['how'] == 'raise':
                    out.append(ev)
        return sorted(out, key=lambda e: e['seq'])

    def finite_members(self, sid):
        return [m for m in self.members(sid) if not m['forever']]

    def last_finite_exit(self, sid):
        """event of the last normal exit among non-forever members, or None if one of them
        has no normal exit"""
        evs = []
        for m in self.finite_members(sid):
            ev = self.normal_exit(m['id'])
            if ev is None:
                return None
            evs.append(ev)
        if not evs:
            return None
        return max(evs, key=lambda e: e['seq'])

    def verdict(self, sid):
        """what the run of scheduler sid reported: dict(kind=success|timeout|critical|
        cancelled|unknown|none, ev=run-exit event)"""
        ev = self.exit(sid)
        if ev is None:
            return dict(kind='none', ev=None)
        if ev['how'] == 'cancelled':
            return dict(kind='cancelled', ev=ev)
        if ev['how'] == 'return' and ev['obj'] is True:
            return dict(kind='success', ev=ev)
        if ev.get('fto') and not ev.get('fc'):
            return dict(kind='timeout', ev=ev)
        if ev.get('fc') and not ev.get('fto'):
            return dict(kind='critical', ev=ev)
        return dict(kind='unknown', ev=ev)

    def stop_instant(self, sid):
        """earliest instant at which sid may legitimately stop starting jobs"""
        begin = self.enter(sid)
        if begin is None:
            return None
        cands = []
        tabs = self.t_abs(sid)
        if tabs is not None:
            cands.append(tabs)
        for ev in self.critical_raises(sid):
            cands.append(ev['t'])
        last = self.last_finite_exit(sid)
        if last is not None:
            cands.append(last['t'])
        for ev in self.cancel_reqs(sid):
            cands.append(ev['t'])
        ex = self.exit(sid)
        if ex is not None:
            cands.append(ex['t'])
        return min(cands) if cands else None

    def terminated(self):
        return self.trace.outcome['how'] in ('return', 'raise')


def brief(events, limit=60):
    """compact rendering of events for replay files / messages"""
    out = []
    for ev in events[:limit]:
        extra = {k: v for k, v in ev.items() if k not in ('seq', 't', 'kind', 'who')}
        out.append("%3d t=%-4s %-12s %-5s %s" % (ev['seq'], ev['t'], ev['kind'], ev['who'],
                                                 extra if extra else ''))
    return out
