"""
Campaign driver shared by all checks.

A property module provides:

    ID, LEVEL, RULE, ASSUMPTIONS, DESIGN_REF
    budget(tier)          -> dict(examples=<total generated cases>, ...)
    strategy(tier)        -> Hypothesis strategy producing a JSON-able case
    evaluate(case)        -> Result
    sweeps(tier)          -> [] or [(name, total_chunks, chunk_fn)] where chunk_fn(k) yields
                             cases of chunk k of a complete enumeration (optional)

Order of work: committed replays, known-finding reproductions, generated campaign sharded
over worker processes (one Hypothesis run per shard, seeded from VERIF_SEED), complete
enumerations.  Exit status: 0 held, 1 violation (VIOLATION line printed), 2 harness error.
"""

import hashlib
import json
import multiprocessing
import os
import sys
import time
import traceback
from collections import Counter

ROOT = os.path.dirname(os.path.dirname(os.path.abspath(__file__)))


class Violation:
    def __init__(self, sig, msg, detail=None):
        self.sig = sig          # stable signature: property:clause[:context]
        self.msg = msg
        self.detail = detail

    def as_dict(self):
        return dict(signature=self.sig, message=self.msg, detail=self.detail)


class Result:
    def __init__(self):
        self.violations = []
        self.nontrivial = False
        self.labels = []
        self.sample = None      # optional extra shown in evidence samples
        self.inconclusive = None
        self.executions = 1     # runs of the code under test made for this case
        self.replay_case = None  # what to store as the replay when it is not the case itself

    def fail(self, sig, msg, detail=None):
        if len(msg) > 1200:
            msg = msg[:1200] + ' ... [%d more characters, see the replay]' % (len(msg) - 1200)
        self.violations.append(Violation(sig, msg, detail))

    def label(self, *labels):
        self.labels.extend(labels)


class CaseFailed(Exception):
    pass


class ShrinkTimeout(BaseException):
    pass


# ---- cases that do not come back
#
# The code under test is synchronous between two awaits, so a loop that never ends inside
# the library (a fixed point that is never recognised, a scan that restarts for ever) would
# hang the check instead of failing it.  A wall-clock alarm is NOT the oracle (a slow
# machine must never raise an alarm): it only triggers a second, deterministic evaluation of
# the same case under a tracer that counts the lines executed inside the asynciojobs package
# and gives up after STEP_BUDGET of them - about 50 times what the largest generated case of
# any property needs (measured with VERIF_MEASURE_STEPS=1: see DESIGN.md section 2.5).  Budget exceeded => violation
# `<ID>:does-not-terminate`; evaluation completed => the case was merely slow (its normal
# verdict is used and the slowness is counted as `inconclusive`).

class CaseTimeout(KeyboardInterrupt):
    pass


class StepBudget(KeyboardInterrupt):
    pass


WATCHDOG = int(os.environ.get('VERIF_WATCHDOG', '300'))
STEP_BUDGET = int(os.environ.get('VERIF_STEP_BUDGET', str(2 * 10**9)))
MEASURE_STEPS = os.environ.get('VERIF_MEASURE_STEPS') == '1'
max_steps_seen = [0]


def _library_dir():
    import asynciojobs
    return os.path.dirname(os.path.abspath(asynciojobs.__file__)) + os.sep


def count_library_steps(fn, case, budget):
    """(result of fn(case), lines executed inside the library), or (None, None) when more
    than `budget` lines were executed"""
    libdir = _library_dir()
    count = [0]
    inlib = {}

    def local(frame, event, arg):
        if event == 'line':
            count[0] += 1
            if count[0] > budget:
                raise StepBudget()
        return local

    def tracer(frame, event, arg):
        code = frame.f_code
        hit = inlib.get(code)
        if hit is None:
            hit = inlib[code] = code.co_filename.startswith(libdir)
        return local if hit else None

    old = sys.gettrace()
    sys.settrace(tracer)
    try:
        res = fn(case)
    except BaseException:
        if count[0] > budget:
            return None, None
        raise
    finally:
        sys.settrace(old)
    if count[0] > budget:           # the harness may have recorded StepBudget as an outcome
        return None, None
    return res, count[0]


def exceeds_budget_in_child(fn, case, budget, want_result=True, traced=True, wall=None):
    """Evaluate fn(case) in a forked child under the line counter.  Returns (exceeded, result):
    exceeded is True when the child executed more than `budget` lines inside the library
    (it exits on the spot: nothing can swallow that); result is fn(case) as computed by the
    child when it could be sent back, else None."""
    import pickle
    rfd, wfd = os.pipe()
    sys.stdout.flush()
    sys.stderr.flush()
    pid = os.fork()
    if pid == 0:                                            # ---- child
        code = 4
        try:
            import signal
            signal.alarm(0)
            signal.signal(signal.SIGALRM, signal.SIG_DFL)
            os.close(rfd)
            libdir = _library_dir()
            count = [0]
            inlib = {}

            def local(frame, event, arg):
                if event == 'line':
                    count[0] += 1
                    if count[0] > budget:
                        os._exit(3)
                return local

            def tracer(frame, event, arg):
                code_ = frame.f_code
                hit = inlib.get(code_)
                if hit is None:
                    hit = inlib[code_] = code_.co_filename.startswith(libdir)
                return local if hit else None
            if traced:
                sys.settrace(tracer)
            elif wall:
                signal.alarm(wall)      # default action: the child dies, the parent sees it
            try:
                res = fn(case)
            finally:
                sys.settrace(None)
                signal.alarm(0)
            try:
                data = pickle.dumps((res, count[0])) if want_result else \
                    pickle.dumps((None, count[0]))
            except Exception:
                data = pickle.dumps((None, count[0]))
            with os.fdopen(wfd, 'wb') as f:
                f.write(data)
            code = 0
        except BaseException:
            try:
                traceback.print_exc()
            except BaseException:
                pass
        finally:
            os._exit(code)
    os.close(wfd)                                           # ---- parent
    with os.fdopen(rfd, 'rb') as f:
        data = f.read()
    _, status = os.waitpid(pid, 0)
    code = os.waitstatus_to_exitcode(status)
    if code == 3:
        return True, None, None
    if code == -14 and not traced:      # SIGALRM: the untraced child was too slow
        return None, None, None
    if code != 0 or not data:
        raise RuntimeError("evaluation in a child process failed (exit %s)" % code)
    res, steps = pickle.loads(data)
    return False, res, steps


_confirmed_hang = []    # this worker has reported a loop: it skips the rest of its work (every
                        # further case of that kind would cost minutes)
_tainted = []       # this process was interrupted in the middle of a case: its module state
                    # (event loop, recorder) may be inconsistent, so it evaluates in children


def guarded(prop_id, fn, case, budget=None):
    import signal
    budget = budget or STEP_BUDGET
    if MEASURE_STEPS:
        res, n = count_library_steps(fn, case, 10**12)
        if n > max_steps_seen[0]:
            max_steps_seen[0] = n
        return res
    fired = []
    if not _tainted:
        def on_alarm(signum, frame):
            fired.append(True)
            signal.alarm(3)         # again and again until control is back here: a harness
            raise CaseTimeout()     # clause may catch it and go on into the next loop
        old = signal.signal(signal.SIGALRM, on_alarm)
        signal.alarm(WATCHDOG)
        try:
            try:
                res = fn(case)
            finally:
                signal.alarm(0)
        except BaseException:
            if not fired:
                raise
        else:
            if not fired:
                return res
        finally:
            signal.alarm(0)
            signal.signal(signal.SIGALRM, old)
        _tainted.append(True)
    else:
        # at full speed in a disposable child, with the same wall-clock trigger
        exceeded, res, steps = exceeds_budget_in_child(fn, case, budget, traced=False,
                                                       wall=WATCHDOG)
        if exceeded is False and res is not None:
            return res
        fired.append(True)
    exceeded, res, steps = exceeds_budget_in_child(fn, case, budget)
    if exceeded:
        _confirmed_hang.append(True)
        res = Result()
        res.fail(prop_id + ':does-not-terminate',
                 "the case did not come back within %d s, and evaluated again under a line "
                 "counter it executed more than %d lines inside the asynciojobs package "
                 "without finishing (the largest generated cases need about a fiftieth "
                 "of that): some call of the library loops" % (WATCHDOG, budget))
    elif res is None:
        raise RuntimeError("the result of a slow case could not be sent back by the child")
    elif fired:
        res.inconclusive = 'slow case (watchdog fired; finished after %d library lines)' % steps
    return res


def case_digest(case):
    blob = json.dumps(case, sort_keys=True, default=str)
    return hashlib.sha1(blob.encode()).hexdigest()[:16]


def load_known(prop_id):
    path = os.path.join(ROOT, 'known_findings.json')
    if not os.path.exists(path):
        return [], []
    with open(path) as f:
        data = json.load(f)
    known = [e for e in data.get('findings', ())
             if e.get('property') == prop_id and e.get('status') == 'known']
    fixed = [e for e in data.get('findings', ())
             if e.get('property') == prop_id and e.get('status') == 'fixed']
    return known, fixed


def sig_matches(sig, known_sigs):
    for ks in known_sigs:
        if sig == ks or (ks.endswith('*') and sig.startswith(ks[:-1])):
            return True
    return False


class Stats:
    def __init__(self):
        self.evaluations = 0
        self.executions = 0
        self.labels = Counter()
        self.nontrivial = set()
        self.samples = []
        self.known_hits = Counter()
        self.inconclusive = Counter()

    def add(self, case, res, known_sigs):
        self.evaluations += 1
        self.executions += res.executions
        for lab in res.labels:
            self.labels[lab] += 1
        if res.inconclusive:
            self.inconclusive[res.inconclusive] += 1
        if res.nontrivial:
            dig = case_digest(case)
            if dig not in self.nontrivial:
                self.nontrivial.add(dig)
                if len(self.samples) < 2 and len(json.dumps(case, default=str)) < 20000:
                    self.samples.append(dict(case=case, observed=res.sample))
        bad = []
        for v in res.violations:
            if sig_matches(v.sig, known_sigs):
                self.known_hits[v.sig] += 1
            else:
                bad.append(v)
        return bad

    def merge(self, other):
        self.evaluations += other.evaluations
        self.executions += other.executions
        self.labels.update(other.labels)
        self.nontrivial |= other.nontrivial
        self.known_hits.update(other.known_hits)
        self.inconclusive.update(other.inconclusive)
        for s in other.samples:
            if len(self.samples) < 3:
                self.samples.append(s)


max_spin_all = [0]


def _max_spin():
    from . import vloop
    return vloop.max_spin_seen[0]


def _get_prop(prop_id):
    import importlib
    return importlib.import_module('vlib.props.' + prop_id.lower())


def _hyp_worker(args):
    prop_id, tier, seed, shard, examples, known_sigs, shrink = args
    try:
        if _confirmed_hang:
            return dict(ok=True, stats=Stats(), failed=None)
        import hypothesis
        from hypothesis import given, settings, HealthCheck, Phase
        prop = _get_prop(prop_id)
        stats = Stats()
        failing = {}

        shrink_budget = 10 if tier == 'quick' else 90
        phases = [Phase.generate] + ([Phase.shrink] if shrink else [])

        @hypothesis.seed(seed * 1000003 + shard * 7919 + 1)
        @settings(max_examples=examples, database=None, deadline=None, derandomize=False,
                  report_multiple_bugs=False, phases=phases,
                  suppress_health_check=list(HealthCheck), print_blob=False)
        @given(prop.strategy(tier))
        def run(case):
            # shrinking is bounded by wall-clock: once the budget is spent the run is
            # abandoned (a BaseException goes through Hypothesis) and the smallest failing
            # case seen so far is reported
            if failing and (time.time() - failing['since'] > shrink_budget
                            or failing.get('hang') or _confirmed_hang):
                raise ShrinkTimeout()       # (a case that hangs is not shrunk: minutes each)
            res = guarded(prop_id, prop.evaluate, case, getattr(prop, 'STEP_BUDGET', None))
            bad = stats.add(case, res, known_sigs)
            if bad:
                failing.setdefault('since', time.time())
                failing['case'] = res.replay_case or case
                failing['digest'] = case_digest(case)
                failing['violations'] = [v.as_dict() for v in bad]
                failing['hang'] = any(v.sig.endswith(':does-not-terminate') for v in bad)
                raise CaseFailed(bad[0].sig)

        try:
            run()
            failed = None
        except (CaseFailed, ShrinkTimeout):
            failed = dict(failing)
        return dict(ok=True, stats=stats, failed=failed, max_steps=max_steps_seen[0],
                    max_spin=_max_spin())
    except BaseException:
        return dict(ok=False, error=traceback.format_exc())


def _sweep_worker(args):
    prop_id, tier, name, chunk, known_sigs = args
    try:
        if _confirmed_hang:
            return dict(ok=True, stats=Stats(), failed=None, name=name)
        prop = _get_prop(prop_id)
        stats = Stats()
        failed = None
        fn = dict((n, f) for n, _, f in prop.sweeps(tier))[name]
        one = getattr(prop, 'evaluate_one', prop.evaluate)     # enumerations: no variants
        for case in fn(chunk):
            res = guarded(prop_id, one, case, getattr(prop, 'STEP_BUDGET', None))
            bad = stats.add(case, res, known_sigs)
            if bad:
                # the first failure of a chunk is what gets reported: stop there (on a tree
                # where a call loops, every further case would cost minutes)
                failed = dict(case=res.replay_case or case, violations=[v.as_dict() for v in bad])
                break
        return dict(ok=True, stats=stats, failed=failed, name=name, max_steps=max_steps_seen[0],
                    max_spin=_max_spin())
    except BaseException:
        return dict(ok=False, error=traceback.format_exc())


def write_finding(prop_id, case, violations, origin):
    d = os.path.join(os.environ.get('VERIF_FINDINGS_DIR') or os.path.join(ROOT, 'findings'),
                     prop_id)
    os.makedirs(d, exist_ok=True)
    path = os.path.join(d, case_digest(case) + '.json')
    with open(path, 'w') as f:
        json.dump(dict(property=prop_id, origin=origin, violations=violations, case=case),
                  f, indent=1, default=str)
    return path


def evaluate_file(prop, path):
    with open(path) as f:
        data = json.load(f)
    case = data['case'] if isinstance(data, dict) and 'case' in data else data
    return case, guarded(prop.ID, prop.evaluate, case, getattr(prop, 'STEP_BUDGET', None))


def run_property(prop_id, tier, seed, replay=None, jobs=None, out=sys.stdout,
                 opt_pass=False):
    t0 = time.time()
    prop = _get_prop(prop_id)
    known, fixed = load_known(prop_id)
    known_sigs = [e['signature'] for e in known]
    jobs = jobs or int(os.environ.get('VERIF_JOBS', '0')) or min(16, os.cpu_count() or 1)

    def say(*a):
        print(*a, file=out, flush=True)

    # ---- single replay
    if replay is not None:
        case, res = evaluate_file(prop, replay)
        bad = [v for v in res.violations if not sig_matches(v.sig, known_sigs)]
        for v in res.violations:
            say("  %s %s: %s" % ("known" if v not in bad else "VIOLATED", v.sig, v.msg))
            if v.detail:
                for line in (v.detail if isinstance(v.detail, list) else [v.detail]):
                    say("      " + str(line))
        if bad:
            say("VIOLATION property=%s replay=%s" % (prop_id, replay))
            return 1
        say("replay %s: property %s holds (nontrivial=%s)" % (replay, prop_id, res.nontrivial))
        return 0

    total = Stats()
    violations = []        # (path, violations)
    harness_errors = []

    # ---- 1. committed replays
    rdir = os.path.join(ROOT, 'replays', prop_id)
    n_replays = 0
    known_repro = {}
    if os.path.isdir(rdir):
        for name in sorted(os.listdir(rdir)):
            if not name.endswith('.json'):
                continue
            if name.startswith('seeded-') and os.environ.get('VERIF_SKIP_SEEDED_REPLAYS') == '1':
                continue        # to measure what the generated search finds by itself
            path = os.path.join(rdir, name)
            try:
                case, res = evaluate_file(prop, path)
            except BaseException:
                harness_errors.append("replay %s: %s" % (path, traceback.format_exc()))
                continue
            n_replays += 1
            for v in res.violations:
                known_repro.setdefault(v.sig, path)
            bad = total.add(case, res, known_sigs)
            if bad:
                violations.append((os.path.relpath(path, ROOT), [v.as_dict() for v in bad]))

    # ---- 2. known findings
    for entry in ([] if opt_pass else known):
        rep = entry.get('replay')
        reproduced = None
        if rep:
            try:
                _, res = evaluate_file(prop, os.path.join(ROOT, rep))
                reproduced = any(sig_matches(v.sig, [entry['signature']])
                                 for v in res.violations)
            except BaseException:
                harness_errors.append("known finding %s: %s" % (rep, traceback.format_exc()))
        if reproduced is False:
            say("note: known finding no longer reproduces: property=%s %s"
                % (prop_id, entry['what']))
        else:
            say("KNOWN-FINDING: property=%s %s" % (prop_id, entry['what']))

    # ---- 3. generated campaign
    budget = prop.budget(tier)
    examples = 0 if opt_pass else int(budget.get('examples', 0))
    ctx = multiprocessing.get_context('fork')
    sweeps = list(prop.sweeps(tier)) if hasattr(prop, 'sweeps') else []
    exhaustive_parts = []
    with ctx.Pool(jobs) as pool:
        pending = []
        if examples:
            shards = jobs if examples >= jobs * 20 else 1
            per = max(1, examples // shards)
            tasks = [(prop_id, tier, seed, shard, per, known_sigs, True)
                     for shard in range(shards)]
            pending.append(('hyp', pool.map_async(_hyp_worker, tasks)))
        for name, nchunks, _ in sweeps:
            # under python -O a slice of each enumeration is enough (only asserts differ)
            chunks = range(nchunks) if not opt_pass or nchunks <= 100 and name.startswith(
                ('size ladder', 'time ladder', 'join of')) else range(min(nchunks, 2))
            tasks = [(prop_id, tier, name, k, known_sigs) for k in chunks]
            pending.append((name, pool.map_async(_sweep_worker, tasks, chunksize=1)))
        for name, async_res in pending:
            results = async_res.get()
            before = total.evaluations
            for r in results:
                if not r['ok']:
                    harness_errors.append(r['error'])
                    continue
                total.merge(r['stats'])
                max_steps_seen[0] = max(max_steps_seen[0], r.get('max_steps', 0))
                max_spin_all[0] = max(max_spin_all[0], r.get('max_spin', 0))
                if r['failed']:
                    path = write_finding(prop_id, r['failed']['case'],
                                         r['failed']['violations'],
                                         origin=dict(tier=tier, seed=seed, part=name))
                    violations.append((os.path.relpath(path, ROOT),
                                       r['failed']['violations']))
            if name != 'hyp':
                exhaustive_parts.append(dict(space=name, cases=total.evaluations - before))

    # ---- report
    seen = set()
    for path, viols in violations:
        key = (viols[0]['signature'])
        if key in seen:
            continue
        seen.add(key)
        say("VIOLATION property=%s replay=%s" % (prop_id, path))
        for v in viols[:5]:
            say("    %s: %s" % (v['signature'], v['message']))
    for err in harness_errors:
        say("HARNESS-ERROR property=%s" % prop_id)
        say(err)

    wall = time.time() - t0
    coverage = dict(
        evaluations=total.evaluations,
        executions=total.executions,
        distinct_nontrivial=len(total.nontrivial),
        rule=prop.RULE,
        samples=total.samples[:3],
        classes=dict(total.labels.most_common()),
        replays_run=n_replays,
        known_finding_hits=dict(total.known_hits),
        inconclusive=dict(total.inconclusive),
        generated_budget=examples,
        workers=jobs,
    )
    if max_spin_all[0]:
        # virtual-time loop: most iterations spent within one instant by any case (the loop
        # gives up, as for its horizon, after vloop.SPIN_LIMIT)
        coverage['max_loop_iterations_within_one_instant'] = max_spin_all[0]
    if exhaustive_parts:
        coverage['exhaustive'] = not examples
        coverage['exhaustive_parts'] = exhaustive_parts
    if hasattr(prop, 'extra_coverage'):
        coverage.update(prop.extra_coverage(tier))
    evidence = dict(
        property_id=prop_id, tier=tier, seed=seed, level=prop.LEVEL,
        coverage=coverage, assumptions=list(prop.ASSUMPTIONS), wall_s=round(wall, 2),
        violations=len(seen))
    if opt_pass:
        say("%s under python -O (asserts stripped): %d replays and enumerated cases, "
            "%d violation(s)" % (prop_id, total.evaluations, len(seen)))
        return 2 if harness_errors else (1 if seen else 0)
    if not harness_errors:
        edir = os.environ.get('VERIF_EVIDENCE_DIR') or os.path.join(ROOT, 'evidence')
        os.makedirs(edir, exist_ok=True)
        with open(os.path.join(edir, prop_id + '.json'), 'w') as f:
            json.dump(evidence, f, indent=1, default=str)
            f.write("\n")
    if MEASURE_STEPS:
        say("max library lines executed by one case: %d" % max_steps_seen[0])
    say("%s %s seed=%d: %d cases, %d distinct non-trivial, %d violation(s), "
        "%d known-finding hit(s), %.1fs"
        % (prop_id, tier, seed, total.evaluations, len(total.nontrivial), len(seen),
           sum(total.known_hits.values()), wall))
    if harness_errors:
        return 2
    return 1 if seen else 0
