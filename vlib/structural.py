"""helpers for the structural properties (C15-C20): hash-controlled job classes, tree
builder, reference graph algorithms"""

import contextlib
import io
import signal
import warnings

warnings.filterwarnings('ignore', category=RuntimeWarning)      # coroutines never awaited

from asynciojobs import AbstractJob, Scheduler, PureScheduler, Sequence

STRUCT_ASSUMPTIONS = [
    "set iteration order is a generated input: jobs hash to a generated key (BestSet is the "
    "builtin set on this installation)",
    "a job belongs to at most one scheduler (documented precondition)",
    "pinned interpreter CPython 3.12.1",
]


class SJob(AbstractJob):
    def __init__(self, name, hkey=0, **kw):
        self.v_id = name
        self.v_hkey = hkey
        kw.setdefault('label', name)
        kw.setdefault('critical', False)
        AbstractJob.__init__(self, **kw)

    def __hash__(self):
        return self.v_hkey


class SSched(Scheduler):
    def __init__(self, name, *jobs, hkey=0, **kw):
        self.v_id = name
        self.v_hkey = hkey
        kw.setdefault('label', name)
        kw.setdefault('critical', False)
        Scheduler.__init__(self, *jobs, **kw)

    def __hash__(self):
        return self.v_hkey


class SPure(PureScheduler):
    def __init__(self, name, *jobs, **kw):
        self.v_id = name
        PureScheduler.__init__(self, *jobs, **kw)


class Loops(BaseException):
    """a call of the library does not come back (confirmed by a line count, see bounded)"""


class _Alarm(KeyboardInterrupt):
    pass


@contextlib.contextmanager
def time_limit(seconds):
    """raise _Alarm inside the block after `seconds` of wall clock; nests inside the
    campaign's own watchdog (the outer alarm is re-armed on exit)"""
    import time

    def handler(signum, frame):
        raise _Alarm()
    old = signal.signal(signal.SIGALRM, handler)
    t0 = time.time()
    outer = signal.alarm(seconds)
    try:
        yield
    finally:
        signal.alarm(0)
        signal.signal(signal.SIGALRM, old)
        if outer:
            signal.alarm(max(1, int(outer - (time.time() - t0))))


def bounded(fn, seconds=10, budget=10**8):
    """fn() - a read-only query of the library on a small graph.  The wall clock is only a
    trigger: when fn() has not returned after `seconds`, it is called again, in a child process, under a counter
    of the lines executed inside the asynciojobs package; more than `budget` lines (the
    largest generated case needs about 7 * 10**6 in all) => Loops, fewer => its value."""
    from .campaign import exceeds_budget_in_child
    try:
        with time_limit(seconds):
            return fn()
    except _Alarm:
        pass
    exceeded, _, _ = exceeds_budget_in_child(lambda _: fn(), None, budget, want_result=False)
    if exceeded:
        raise Loops()
    return fn()             # merely slow: it does come back


@contextlib.contextmanager
def quiet():
    out = io.StringIO()
    with contextlib.redirect_stdout(out):
        yield out


# ------------------------------------------------------------- reference algorithms
def is_acyclic(nodes, edges):
    """Kahn; edges are (a, b): b requires a"""
    nodes = list(nodes)
    indeg = {n: 0 for n in nodes}
    succ = {n: [] for n in nodes}
    for a, b in edges:
        if a in indeg and b in indeg:
            indeg[b] += 1
            succ[a].append(b)
    free = [n for n in nodes if indeg[n] == 0]
    seen = 0
    while free:
        n = free.pop()
        seen += 1
        for m in succ[n]:
            indeg[m] -= 1
            if indeg[m] == 0:
                free.append(m)
    return seen == len(nodes)


def closure(nodes, edges, starts, forward):
    """nodes reachable from `starts` through one or more links; forward=True follows
    'is required by' (downstream), False follows 'requires' (upstream)"""
    nodes = set(nodes)
    nxt = {n: set() for n in nodes}
    for a, b in edges:
        if a in nodes and b in nodes:
            if forward:
                nxt[a].add(b)
            else:
                nxt[b].add(a)
    seen = set()
    todo = []
    for s in starts:
        if s in nodes:
            todo.extend(nxt[s])
    while todo:
        n = todo.pop()
        if n in seen:
            continue
        seen.add(n)
        todo.extend(nxt[n])
    return seen


def transitive(nodes, edges):
    """set of (a, b) with a path a -> ... -> b of length >= 1 inside nodes"""
    out = set()
    for n in nodes:
        for m in closure(nodes, edges, [n], True):
            out.add((n, m))
    return out


def graph_of(sched):
    """(member ids, edges (req id, job id)) of one scheduler level, objects having v_id;
    requirements that are not members are reported with their v_id too"""
    ids = [j.v_id for j in sched.jobs]
    edges = [(r.v_id, j.v_id) for j in sched.jobs for r in j.required]
    return ids, edges


def sparse_edges(n, seed, back=0):
    """about 2n edges a -> b with a < b (acyclic), from a drawn seed; `back` extra edges
    b -> a make it cyclic.  Used for the occasional wide graph: drawing every pair through
    Hypothesis would exceed the entropy it allows for one example."""
    state = [seed % (2 ** 31) or 1]

    def lcg():
        state[0] = (state[0] * 1103515245 + 12345) % (2 ** 31)
        return state[0] >> 8
    edges = set()
    for b in range(1, n):
        for _ in range(lcg() % 4):
            edges.add((lcg() % b, b))
    if n > 260 and lcg() % 2:
        # one job with more than 256 requirements, one required by more than 256 jobs
        for a in range(n - 1):
            edges.add((a, n - 1))
        for b in range(1, n):
            edges.add((0, b))
    out = [[a, b] for a, b in sorted(edges)]
    for _ in range(back):
        a = lcg() % (n - 1)
        b = a + 1 + lcg() % (n - 1 - a)
        out.append([b, a])
    return out


@contextlib.contextmanager
def user_stack(frames=950):
    """Hypothesis raises the interpreter's recursion limit while it runs a test; a user calls
    the library from a shallow stack under the default limit of 1000.  Give the code under
    test what that user would have: `frames` frames from here."""
    import sys
    depth = 0
    frame = sys._getframe()
    while frame is not None:
        depth += 1
        frame = frame.f_back
    old = sys.getrecursionlimit()
    sys.setrecursionlimit(depth + frames)
    try:
        yield
    finally:
        sys.setrecursionlimit(old)
