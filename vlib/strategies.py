"""
Hypothesis strategies building run-time scenarios by construction (no rejection).

A Profile carries the weights; each property derives its own profile (bias and
admissibility constraints).  Admissibility (the premise of C03) is enforced while drawing:

* a scheduler that is not "wild" never has a non-forever member that is, or depends on, a
  member that may never end; members that may never end are forever-flagged;
* each window is larger than the number of members that may never end;
* a scheduler without timeout owns at least one non-forever member (unless empty and
  empty schedulers are allowed);
* "wild" schedulers (never-ending non-forever jobs, anything goes) exist only under a
  scheduler (itself or an ancestor) that has a timeout.
"""

import copy
from dataclasses import dataclass, field, replace

from hypothesis import strategies as st


def weighted(pairs):
    out = []
    for value, weight in pairs:
        out.extend([value] * weight)
    return st.sampled_from(out)


def chance(draw, percent):
    """True with roughly `percent` % probability; shrinks towards False"""
    if percent <= 0:
        return False
    if percent >= 100:
        return True
    return draw(st.integers(0, 99)) >= 100 - percent


@dataclass
class Profile:
    max_depth: int = 2                  # top is depth 0: up to 3 levels
    max_members: int = 5
    min_top_members: int = 1
    max_jobs: int = 16
    p_nested: int = 22
    p_empty_nested: int = 4
    durations: tuple = ((0, 3), (1, 4), (2, 3), (3, 2), (4, 1), (5, 1), (6, 1))
    ks: tuple = ((0, 5), (1, 2), (2, 1), (3, 1))
    cs: tuple = ((0, 5), (1, 2), (2, 1))
    sds: tuple = ((0, 5), (1, 2), (2, 1), (3, 1))
    p_raise: int = 18
    p_critical: int = 35
    p_forever: int = 14
    p_never: int = 55                   # among forever jobs: never-ending
    p_tick: int = 30                    # among never-ending: ticking rather than blocked
    p_edge: int = 35
    windows: tuple = ((None, 6), (0, 1), (1, 2), (2, 2), (3, 1), (4, 1))
    timeouts: tuple = ((None, 10), (0, 1), (0.5, 1), (1, 1), (1.5, 1), (2, 1), (2.5, 1),
                       (3, 1), (4, 1), (4.5, 1), (6, 1), (8, 1), (0.25, 1), (1.75, 1))
    sdts: tuple = ((None, 1), (0, 1), (1, 3), (2, 1), (3, 1))
    p_wild: int = 30                    # a scheduler under a timeout is wild
    p_sched_critical: int = 50
    p_sched_forever: int = 8
    p_verbose: int = 15
    p_coroutine: int = 30
    p_pure_top: int = 25
    allow_empty: bool = True
    hkeys: int = 16
    tkeys: int = 4
    p_late_attrs: int = 12              # flags / window / timeouts assigned after construction
    p_inspect: int = 10                 # read-only inspection calls at every quiescent point
    p_exc: int = 25                     # among raising jobs: a builtin exception class
    p_label: int = 10                   # an odd label (braces, quotes, %, newline...)
    p_excmsg: int = 20                  # among raising jobs: an odd message (half of them: none)
    p_print: int = 5                    # the job is a PrintJob of the library
    p_rerun: int = 0                    # the judged run is the second run of the same objects
    p_wide: int = 3                     # % of cases whose top scheduler is wide (12..130 jobs)
    p_watch: int = 8                    # a Watch object is passed (shared by the whole tree)
    p_prelude: int = 8                  # graph queried and re-wired before the run
    p_ret: int = 12                     # the body returns None / 0 / False / '' / a Future
    p_latefill: int = 6                 # schedulers created empty, wired, then filled
    p_block: int = 0                    # a job has a blocking (synchronous) section
    p_late_critical: int = 8
    p_cexc: int = 4                     # a job that answers a cancellation by raising
    p_flagform: int = 10
    p_big: int = 8                      # % of schedulers that may have up to big_members
    big_members: int = 9
    force_nested: int = 0               # % of cases whose top has a nested scheduler for sure

    def but(self, **kw):
        return replace(self, **kw)


GENERAL = Profile()
WIDE_SIZES = [12, 17, 20, 33, 40, 51, 65, 101, 130, 300]
ODD_LABELS = ['{}', '{0}', '{x}', "awk '{print $1}'", '%s %d', '100%', 'a "quoted" one',
              'two\nlines', '', ' ', 'é→中', '${HOME}', '}{', 'x' * 60, 0, 7, ('a', 1)]
EXC_NAMES = ['TimeoutError', 'KeyError', 'ValueError', 'OSError', 'RuntimeError',
             'LookupError', 'AssertionError', 'BaseExc', 'NotImplementedError',
             'ConnectionResetError', 'InvalidStateError', 'IndexError', 'AttributeError',
             'TypeError', 'UnicodeEncodeError']
ENTRIES = ['run', 'orchestrate', 'co_run', 'run-no-current-loop', 'co_run-called-early']


def requirement_endings_sweep():
    """a job requires a nested scheduler one job of which raises (every exception class, with
    and without a message, verbose or not, critical or not) while another is still at work"""
    combos = [(exc, msg, verbose, crit, cls, w)
              for exc in ['VExc'] + EXC_NAMES for msg in (None, '')
              for verbose in (False, True) for crit in (False, True)
              for cls in ('abstract', 'coroutine') for w in (None, 1)]

    def job(ident, d, **kw):
        out = dict(kind='job', id=ident, cls='abstract', d=d, k=0, outcome='return',
                   critical=False, forever=False, c=0, sd=0, hkey=1, tkey=0)
        out.update(kw)
        return out

    def sched(ident, members, **kw):
        out = dict(kind='sched', id=ident, cls='nestable', window=None, timeout=None, sdt=1,
                   critical=False, forever=False, verbose=False, hkey=0, tkey=0,
                   members=members, edges=[], order=list(range(len(members))), build='ctor',
                   wild=False)
        out.update(kw)
        return out

    def chunk(k):
        for n, (exc, msg, verbose, crit, cls, w) in enumerate(combos):
            if n % 8 != k:
                continue
            boom = job('j1', 1, outcome='raise', critical=crit, exc=exc, cls=cls)
            if msg is not None:
                boom['excmsg'] = msg
            inner = sched('s1', [boom, job('j2', 3), job('j3', 2)], verbose=verbose, window=w,
                          edges=[[0, 2]] if n % 2 else [])
            yield sched('s0', [inner, job('j4', 1), job('j5', 2)], edges=[[0, 1], [0, 2]],
                        verbose=verbose)
        if k == 0:
            # a job requires a quick job and a nested scheduler that is itself kept waiting
            # by a slow requirement: the nested scheduler (empty or not, first or second run
            # of the tree, any first-run mode) has not even begun when the quick job ends
            for empty in (False, True):
                for rerun in (None, 'free', 'w1', 'asis'):
                    for depth in (1, 2):
                        inner = sched('s1', [] if empty else [job('j2', 1), job('j3', 2)])
                        if depth == 2:
                            inner = sched('s2', [inner, job('j7', 1)], edges=[[0, 1]])
                        top = sched('s0', [job('j1', 3), inner, job('j5', 1), job('j6', 1)],
                                    edges=[[0, 1], [1, 3], [2, 3]])
                        if rerun:
                            top['rerun'] = True
                            top['rerun_first'] = rerun
                        yield assign_sched_ids(top)
    return ('a requirement that is a nested scheduler with a raising job: %d exception classes '
            'x message or none x verbose x critical x job class x window' % (len(EXC_NAMES) + 1),
            8, chunk)


def exception_entry_sweep():
    """every exception class x every way of starting the run x scheduler class / critical /
    nesting / verbose: a critical job raises it at t=1 while another job runs"""
    combos = [(exc, entry, cls, critical, nested, verbose)
              for exc in ['VExc'] + EXC_NAMES for entry in ENTRIES
              for cls in ('nestable', 'pure') for critical in (False, True)
              for nested in (False, True) for verbose in (False, True)
              if not (cls == 'pure' and critical)]

    def job(ident, d, **kw):
        out = dict(kind='job', id=ident, cls='abstract', d=d, k=0, outcome='return',
                   critical=False, forever=False, c=0, sd=0, hkey=1, tkey=0)
        out.update(kw)
        return out

    def sched(ident, members, **kw):
        out = dict(kind='sched', id=ident, cls='nestable', window=None, timeout=None, sdt=1,
                   critical=False, forever=False, verbose=False, hkey=0, tkey=0,
                   members=members, edges=[], order=list(range(len(members))), build='ctor',
                   wild=False)
        out.update(kw)
        return out

    def chunk(k):
        for n, (exc, entry, cls, critical, nested, verbose) in enumerate(combos):
            if n % 8 != k:
                continue
            for msg in (None, ''):
                boom = job('j1', 1, outcome='raise', critical=True, exc=exc,
                           cls='coroutine' if n % 3 == 0 else 'abstract')
                if msg is not None:
                    boom['excmsg'] = msg
                if nested:
                    inner = sched('s1', [boom, job('j2', 3)], critical=True, verbose=verbose)
                    top = sched('s0', [inner, job('j3', 4)], cls=cls, critical=critical,
                                verbose=verbose, entry=entry)
                else:
                    top = sched('s0', [boom, job('j2', 3)], cls=cls, critical=critical,
                                verbose=verbose, entry=entry)
                yield top
    return ('critical failure: %d exception classes x %d entry points x scheduler class / '
            'critical / nested / verbose x with and without a message'
            % (len(EXC_NAMES) + 1, len(ENTRIES)), 8, chunk)


def _draw_job(draw, prof, wild, wide=False):
    # in a wide scheduler most members are regular jobs (count thresholds on those)
    forever = chance(draw, min(prof.p_forever, 4) if wide else prof.p_forever)
    d = draw(weighted(prof.durations))
    if (forever or wild) and chance(draw, prof.p_never if forever else 25):
        d = 'tick' if chance(draw, prof.p_tick) else 'never'
    extra = {}
    if chance(draw, prof.p_label):
        extra['label'] = draw(st.sampled_from(ODD_LABELS))
    if chance(draw, prof.p_exc):
        extra['exc'] = draw(st.sampled_from(EXC_NAMES))
    if chance(draw, prof.p_excmsg):
        # (an exception without a message, as a bare `raise ValueError()`, is common)
        extra['excmsg'] = '' if chance(draw, 50) else draw(st.sampled_from(ODD_LABELS))
    if chance(draw, prof.p_late_critical):
        extra['late_critical'] = True       # the job turns critical just before raising
    if chance(draw, prof.p_ret):
        extra['ret'] = draw(st.sampled_from(['none', 'zero', 'false', 'empty', 'future-done',
                                             'future-pending', 'exc-object', 'tuple2',
                                             'tuple0', 'list', 'dict']))
    if chance(draw, prof.p_cexc):
        extra['cexc'] = True
    if chance(draw, prof.p_block):
        extra['b'] = draw(st.sampled_from([0.5, 1, 2]))
    if extra.get('late_critical'):
        extra['critical_'] = True
    if isinstance(d, (int, float)) and chance(draw, prof.p_print):
        # the library's own PrintJob: sleeps d, returns None, no shutdown handler of its own
        return dict(kind='job', id=None, cls='print', d=d, k=0, outcome='return',
                    critical=chance(draw, prof.p_critical), forever=forever, c=0, sd=0,
                    hkey=draw(st.integers(0, prof.hkeys - 1)),
                    tkey=draw(st.integers(0, prof.tkeys - 1)),
                    late_attrs=False, flagform='bool')
    return dict(
        **extra,
        kind='job', id=None,
        cls='coroutine' if chance(draw, prof.p_coroutine) else 'abstract',
        d=d, k=draw(weighted(prof.ks)),
        outcome='raise' if chance(draw, prof.p_raise) else 'return',
        critical=chance(draw, prof.p_critical), forever=forever,
        c=draw(weighted(prof.cs)), sd=draw(weighted(prof.sds)),
        hkey=draw(st.integers(0, prof.hkeys - 1)), tkey=draw(st.integers(0, prof.tkeys - 1)),
        late_attrs=chance(draw, prof.p_late_attrs),
        flagform='alt' if chance(draw, prof.p_flagform) else 'bool')


def _fix_late_critical(job):
    # as far as the oracles are concerned a job that turns critical before raising IS
    # critical (and it only matters when it raises)
    if job.pop('critical_', None):
        if job['outcome'] == 'raise':
            job['critical'] = True
        else:
            job.pop('late_critical', None)
    return job


def may_never_end(member):
    """can this member, once started, go on for ever if nobody cancels it?"""
    if member['kind'] == 'job':
        return member['d'] in ('never', 'tick')
    if member['timeout'] is not None or not member['members']:
        return False
    mem = member['members']
    taint = taints(member)
    finite = [i for i, m in enumerate(mem) if not m['forever']]
    if finite:
        return any(taint[i] for i in finite)
    return all(taint)


def taints(sched):
    """per member: is it, or does it depend on, a member that may never end"""
    mem = sched['members']
    taint = [may_never_end(m) for m in mem]
    for i, j in sorted(sched['edges'], key=lambda e: e[1]):
        if taint[i]:
            taint[j] = True
    # edges go from lower to higher index: one more pass in index order settles chains
    for j in range(len(mem)):
        for i, jj in sched['edges']:
            if jj == j and taint[i]:
                taint[j] = True
    return taint


def _draw_sched(draw, prof, depth, under_timeout, budget, top=False):
    timeout = draw(weighted(prof.timeouts))
    under = under_timeout or timeout is not None
    wild = under and chance(draw, prof.p_wild)
    lo = prof.min_top_members if top else 0
    if not top and not prof.allow_empty:
        lo = 1
    hi = max(lo, min(prof.big_members if chance(draw, prof.p_big) else prof.max_members,
                     budget[0]))
    if not top and prof.allow_empty and chance(draw, prof.p_empty_nested):
        n = 0
    else:
        n = draw(st.integers(max(lo, 1) if hi >= 1 else lo, hi)) if hi >= 1 else 0
    members = []
    edges = []
    taint = []
    wide = top and chance(draw, prof.p_wide)
    if wide:
        # size thresholds (slices, batches, id widths...) sit beyond the usual small cases
        n = draw(st.sampled_from(WIDE_SIZES))
        if chance(draw, 25):
            # beyond CPython's cached small ints (256) / a slice of 512 as a count of members
            n = 600 if chance(draw, 40) else 300
    if wide:
        # Hypothesis bounds the amount of entropy of one example (a few hundred draws): a
        # wide scheduler is made of a few drawn template jobs, varied by a deterministic
        # function of one drawn seed (replay and shrinking work as for any drawn value)
        templates = [_fix_late_critical(_draw_job(draw, prof, wild, True)) for _ in range(4)]
        state = [draw(st.integers(0, 2 ** 16))]

        def lcg():
            state[0] = (state[0] * 1103515245 + 12345) % (2 ** 31)
            return state[0] >> 8
    forced = top and not wide and prof.force_nested and chance(draw, prof.force_nested)
    forced_at = draw(st.integers(0, n - 1)) if forced and n else -1
    hub = wide and chance(draw, 50)
    for j in range(n):
        if hub and j == 0:
            # the usual layout: a nested "prepare" scheduler, then one job per node
            member = _draw_sched(draw, prof.but(max_members=3, p_nested=0, p_wide=0),
                                 depth + 1, under, [6])
            member['forever'] = False
        elif not wide and depth < prof.max_depth and budget[0] > 2 and (
                j == forced_at or chance(draw, prof.p_nested)):
            member = _draw_sched(draw, prof, depth + 1, under, budget)
        else:
            if wide:
                member = dict(templates[j % 4])
                if isinstance(member['d'], int):
                    member['d'] = (member['d'] + lcg()) % 4
                member['hkey'] = lcg() % prof.hkeys
                member['tkey'] = lcg() % prof.tkeys
            else:
                member = _fix_late_critical(_draw_job(draw, prof, wild))
            budget[0] -= 1
        never = may_never_end(member)
        if never and not wild:
            member['forever'] = True
        preds = []
        if wide:
            # sparse: at most two requirements, drawn among the earlier members
            cands = [lcg() % j for _ in range(lcg() % 3)] if j else []
            if hub and j and lcg() % 3 == 0:
                cands.append(0)
        else:
            cands = [i for i in range(j) if chance(draw, prof.p_edge)]
        for i in sorted(set(cands)):
            if taint[i] and not member['forever'] and not wild:
                continue
            preds.append(i)
        edges.extend([i, j] for i in preds)
        taint.append(never or any(taint[i] for i in preds))
        members.append(member)
    if n and timeout is None and all(m['forever'] for m in members):
        # a scheduler without timeout owns at least one non-forever job: member 0 has no
        # requirement, make it a finite regular job
        first = members[0]
        first['forever'] = False
        if first['kind'] == 'job':
            if first['d'] in ('never', 'tick'):
                first['d'] = 1
        elif may_never_end(first):
            first['timeout'] = 2.5
    window = draw(weighted(prof.windows))
    sched = dict(
        kind='sched', id=None, cls='nestable',
        window=window, timeout=timeout, sdt=draw(weighted(prof.sdts)),
        critical=chance(draw, prof.p_sched_critical),
        forever=(not top) and chance(draw, prof.p_sched_forever),
        verbose=chance(draw, prof.p_verbose),
        hkey=draw(st.integers(0, prof.hkeys - 1)), tkey=draw(st.integers(0, prof.tkeys - 1)),
        members=members, edges=edges,
        order=(list(draw(st.permutations(list(range(n))))) if 1 < n <= 12
               else sorted(range(n), key=lambda i: (i * 7919 + 13) % 1009)),
        build=draw(weighted((('ctor', 3), ('add', 2), ('update', 1), ('mixed', 1),
                             ('scheduler=', 1)))),
        flagform='alt' if chance(draw, prof.p_flagform) else 'bool',
        wild=wild, late_attrs=chance(draw, prof.p_late_attrs),
        watch=chance(draw, prof.p_watch))
    if chance(draw, prof.p_label):
        sched['label'] = draw(st.sampled_from(ODD_LABELS))
    if wide and window and chance(draw, 30):
        window = sched['window'] = draw(st.sampled_from([24, 257, 300]))
    if window and not wild:
        never = sum(1 for m in members if may_never_end(m))
        if window <= never:
            sched['window'] = never + 1
    if top:
        sched['cls'] = 'pure' if chance(draw, prof.p_pure_top) else 'nestable'
    return sched


def rescale(spec, factor):
    """every duration, delay and timeout multiplied by an integer: same ties, other
    magnitudes (a threshold in seconds sits somewhere)"""
    for key in ('timeout', 'sdt'):
        if spec.get(key):
            spec[key] = spec[key] * factor
    for m in spec['members']:
        if m['kind'] == 'sched':
            rescale(m, factor)
        else:
            for key in ('d', 'c', 'sd', 'b'):
                if isinstance(m.get(key), (int, float)) and m.get(key):
                    m[key] = m[key] * factor
            if m['d'] == 'tick':
                m['tickp'] = factor
    spec['scale'] = factor


def _force_abstract(spec):
    for m in spec['members']:
        if m['kind'] == 'job':
            m['cls'] = 'abstract'
        else:
            _force_abstract(m)


def _all_scheds(spec):
    for m in spec['members']:
        if m['kind'] == 'sched':
            yield m
            yield from _all_scheds(m)


def assign_sched_ids(spec):
    """number the schedulers of a hand-made tree in pre-order (s0 = top)"""
    n = [0]

    def rec(sp):
        if sp['kind'] == 'sched':
            sp['id'] = 's%d' % n[0]
            n[0] += 1
            for m in sp['members']:
                rec(m)
    rec(spec)
    return spec


def assign_ids(spec):
    counters = {'job': 0, 'sched': 0}

    def rec(sp):
        if sp['kind'] == 'sched':
            sp['id'] = 's%d' % counters['sched']
            counters['sched'] += 1
            for m in sp['members']:
                rec(m)
        else:
            counters['job'] += 1
            sp['id'] = 'j%d' % counters['job']
    rec(spec)
    return spec


PLAIN = dict(p_label=0, p_exc=0, p_excmsg=0, p_ret=0, p_late_attrs=0, p_watch=0, p_inspect=0, p_prelude=0,
             p_latefill=0, p_rerun=0, p_print=0, p_block=0, p_wide=0, p_late_critical=0, p_flagform=0, p_cexc=0)


@st.composite
def scenarios(draw, prof=GENERAL):
    # the extra dimensions must not dilute the core search (shapes, flags, times, orders):
    # nearly half of the cases are plain trees
    plain = chance(draw, 45)
    if plain:
        prof = prof.but(**PLAIN)
    budget = [prof.max_jobs]
    top = _draw_sched(draw, prof, 0, False, budget, top=True)
    top['inspect'] = chance(draw, prof.p_inspect)
    top['prelude'] = chance(draw, prof.p_prelude)
    top['latefill'] = chance(draw, prof.p_latefill)
    if not plain and chance(draw, 3):
        top['watch_age'] = draw(st.sampled_from([1500, 90000]))    # an old Watch
    if len(top['members']) > 40:
        # quadratic inspection / re-wiring work on hundreds of members buys nothing
        top['inspect'] = False
        if len(top['members']) > 130:
            top['prelude'] = False
    top['entry'] = 'run' if plain else draw(weighted(
        (('run', 6), ('orchestrate', 1), ('co_run', 2), ('run-no-current-loop', 1),
         ('co_run-called-early', 2))))
    if top['entry'] == 'co_run-called-early':
        if chance(draw, 80) and len(top['members']) <= 130:
            top['prelude'] = True   # the coroutine is obtained before the final wiring
        if chance(draw, 50):
            top['cls'] = 'pure'     # (a Scheduler's own co_run() wraps the call)
    if not plain and chance(draw, 8):
        rescale(top, 40)            # minutes rather than seconds: 0.25 -> 10, 8 -> 320
    if chance(draw, prof.p_rerun):
        top['rerun'] = True
        if chance(draw, 50) and len(top['members']) <= 130:
            top['prelude'] = True   # re-wired between the two runs
        _force_abstract(top)        # a coroutine object cannot be awaited twice
        top['rerun_first'] = draw(weighted((('free', 3), ('w1', 1), ('asis', 2))))
        if chance(draw, 40):
            # some schedulers have members of the first run only, removed before the second
            # (a critical one that raises makes that first run of its scheduler fail)
            if prof.allow_empty and len(top['members']) <= 12 and chance(draw, 40):
                # a nested scheduler that owns nothing but such members: empty when judged
                emptied = _draw_sched(draw, prof.but(p_empty_nested=100), 1,
                                      top['timeout'] is not None, [0])
                emptied['forever'] = False
                top['members'].append(emptied)
                top['order'].append(len(top['members']) - 1)
            scheds = [top] + [m for m in _all_scheds(top)]
            scheds.sort(key=lambda sp: bool(sp['members']))
            nghost = 0
            for sp in scheds[:8]:
                if chance(draw, 70 if not sp['members'] else 35):
                    sp['ghosts'] = []
                    for _ in range(draw(st.integers(1, 2))):
                        nghost += 1
                        sp['ghosts'].append(dict(
                            kind='job', id='g%d' % nghost, cls='abstract',
                            d=draw(st.sampled_from([0, 1, 2, 9])), k=0,
                            outcome='raise' if chance(draw, 70) else 'return',
                            critical=chance(draw, 70), forever=False, c=0, sd=0,
                            hkey=draw(st.integers(0, prof.hkeys - 1)),
                            tkey=draw(st.integers(0, prof.tkeys - 1))))
    return assign_ids(top)


def is_admissible(spec):
    """the premise of C03, checked on a finished scenario (used as an assertion on the
    generator and to classify replayed cases)"""
    def rec(sp, under):
        under = under or sp['timeout'] is not None
        mem = sp['members']
        if sp['timeout'] is None and not any(not m['forever'] for m in mem):
            return False
        if not under:
            taint = taints(sp)
            for i, m in enumerate(mem):
                if taint[i] and not m['forever']:
                    return False
            if sp['window']:
                if sp['window'] <= sum(1 for m in mem if may_never_end(m)):
                    return False
        return all(rec(m, under) for m in mem if m['kind'] == 'sched')
    return rec(spec, False)


def clone(spec):
    return copy.deepcopy(spec)


# ---------------------------------------------------------------- the size ladder
LADDER = [9, 17, 33, 65, 129, 257, 513, 1025]


def ladder_case(n, kind, window, variant=0):
    """A flat scheduler of n members, just above a power of two (slice sizes, caches of small
    integers, recursion limits ... sit at such thresholds).  kind: 'plain' (all succeed),
    'critical' (member 0 is critical and raises at t=1), 'timeout' (the top has timeout 1.5),
    'forever' (a fifth of the members are never-ending forever jobs).  Deterministic."""
    state = [n * 31 + variant * 7 + len(kind)]

    def lcg():
        state[0] = (state[0] * 1103515245 + 12345) % (2 ** 31)
        return state[0] >> 8
    members = []
    edges = []
    for j in range(n):
        forever = kind == 'forever' and j % 5 == 4
        job = dict(kind='job', id=None, cls='abstract', d=(lcg() % 3) + (0 if j else 1), k=lcg() % 2,
                   outcome='return', critical=False, forever=forever, c=lcg() % 2,
                   sd=lcg() % 2, hkey=lcg() % 16, tkey=lcg() % 4)
        if forever:
            # under a window fewer never-ending jobs than slots (premise of C03)
            nevers = sum(1 for m in members if m['d'] == 'never')
            job['d'] = 'never' if (not window or nevers < window - 1) else 6
        if kind == 'critical' and j == 0:
            job.update(d=1, k=0, outcome='raise', critical=True)
        elif kind in ('critical', 'timeout') and j % 3 == 1:
            job['d'] = 3            # still running / queued when the run is cut short
        if j and not forever and lcg() % 2 and kind != 'critical':
            i = lcg() % j
            if not members[i]['forever']:
                edges.append([i, j])
        members.append(job)
    sched = dict(kind='sched', id=None, cls='nestable' if variant % 2 else 'pure',
                 window=window, timeout=1.5 if kind == 'timeout' else None, sdt=1,
                 critical=False, forever=False, verbose=False, hkey=0, tkey=0,
                 members=members, edges=edges,
                 order=sorted(range(n), key=lambda i: (i * 7919 + variant) % 1009),
                 build='ctor', wild=False, entry='run')
    return assign_ids(sched)


def ladder_sweep(kinds, windows=(None, 3, 24, 300), sizes=LADDER):
    """[(name, nchunks, chunk_fn)] entry for a property module's sweeps()"""
    combos = [(n, kind, w) for n in sizes for kind in kinds for w in windows]

    def chunk(k):
        n, kind, w = combos[k]
        yield ladder_case(n, kind, w, variant=k)
    return ('size ladder %s x %s x windows %s' % (list(sizes), list(kinds), list(windows)),
            len(combos), chunk)


# ---------------------------------------------------------------- the time ladder
TIME_LADDER = [61, 90, 121, 1001, 3601, 86401]


def time_ladder_sweep():
    """timeouts just above 1 min / 2 min / 1000 s / 1 h / 1 day, a job that finishes 10 s
    before or after, verbose on or off, at the top or nested (thresholds expressed in seconds
    sit at such values)"""
    combos = [(t, late, verbose, nested) for t in TIME_LADDER for late in (False, True)
              for verbose in (False, True) for nested in (False, True)]

    def job(ident, d, **kw):
        out = dict(kind='job', id=ident, cls='abstract', d=d, k=0, outcome='return',
                   critical=False, forever=False, c=0, sd=0, hkey=1, tkey=0)
        out.update(kw)
        return out

    def sched(ident, members, **kw):
        out = dict(kind='sched', id=ident, cls='nestable', window=None, timeout=None, sdt=1,
                   critical=False, forever=False, verbose=False, hkey=0, tkey=0,
                   members=members, edges=[], order=list(range(len(members))), build='ctor',
                   wild=False)
        out.update(kw)
        return out

    def chunk(k):
        t, late, verbose, nested = combos[k]
        d = t + 10 if late else t - 10
        inner = sched('s1' if nested else 's0', [job('j1', d), job('j2', 5)], timeout=t,
                      verbose=verbose, critical=bool(k % 3 == 0))
        if nested:
            inner = sched('s0', [inner, job('j3', 7)], verbose=verbose)
        yield inner
    return ('time ladder: timeout in %s, job ending 10 s before / after, verbose, nesting'
            % TIME_LADDER, len(combos), chunk)
