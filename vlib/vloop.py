"""
A deterministic virtual-time asyncio event loop.

* time() is a virtual clock; the fake selector never blocks: when asked to wait for
  `timeout > 0` (nothing is ready: every zero-time consequence of the current instant has
  settled) it calls the quiescence callback and jumps the clock; when asked to wait
  for ever (nothing ready, no timer armed) it raises Deadlock; beyond the horizon it raises
  Horizon.
* timers falling on the same instant fire in the order (when, tie key of the owner of the
  task that armed them, creation number): same-instant order is an input.
* tasks are VTask objects hashed by creation number, so that sets of tasks iterate
  deterministically; every task ever created is recorded; cancel requests are logged.
"""

import asyncio
import heapq
from asyncio import events, base_events


class Deadlock(BaseException):
    "nothing ready and no timer armed while the main future is not done"


class Horizon(BaseException):
    "virtual clock went beyond the horizon"


class Livelock(Horizon):
    """the loop went through SPIN_LIMIT iterations without the virtual clock advancing and
    without the run ending: something re-arms a zero-time wait for ever (handled like Horizon:
    the run does not terminate)"""


# the largest generated cases (1025 jobs completing in the same instant under a window of 3)
# need about 30 iterations within one instant (evidence: max_loop_iterations_within_one_instant)
SPIN_LIMIT = 200000
max_spin_seen = [0]


class _VSelector:
    def __init__(self, loop):
        self.loop = loop

    def select(self, timeout=None):
        loop = self.loop
        if timeout is None:
            raise Deadlock()
        if timeout > 0:
            loop._quiescent()
            # jump to the next timer (head of the heap is not cancelled here)
            loop._vt = loop._scheduled[0]._when if loop._scheduled else loop._vt + timeout
            if loop._vt > loop.horizon:
                raise Horizon()
        return ()

    def close(self):
        pass


class VTimer(events.TimerHandle):
    __slots__ = ('_tk',)

    def _key(self):
        return (self._when, self._tk)

    def __lt__(self, other):
        return self._key() < other._key()

    def __le__(self, other):
        return self._key() <= other._key()

    def __gt__(self, other):
        return self._key() > other._key()

    def __ge__(self, other):
        return self._key() >= other._key()

    def __eq__(self, other):
        return self is other

    __hash__ = events.TimerHandle.__hash__


class VTask(asyncio.Task):
    """Task hashed by creation number, with an owner (a verification-side job/scheduler
    or None), a kind ('body' | 'shutdown' | 'other') and cancel-request logging."""

    def __init__(self, coro, *, vh, owner, kind, tkey, vloop, **kw):
        # _vh must exist before Task.__init__ registers the task in a WeakSet
        self._vh = vh
        self.v_owner = owner
        self.v_kind = kind
        self.v_tkey = tkey
        self.v_loop = vloop
        super().__init__(coro, **kw)

    def __hash__(self):
        return self._vh

    def __eq__(self, other):
        return self is other

    def cancel(self, msg=None):
        if not self.done():
            cb = self.v_loop.on_cancel_request
            if cb is not None:
                cb(self)
        return super().cancel(msg)


def _owner_of_coro(coro):
    """Find which verification-side object a coroutine works for: Window.run_job's
    `wrapped` closure has `job`; co_run / co_shutdown coroutines have `self`."""
    try:
        frame = coro.cr_frame
        fl = frame.f_locals if frame is not None else {}
    except Exception:                                   # pragma: no cover
        return None, 'other'
    name = getattr(coro, '__qualname__', '')
    if 'job' in fl and hasattr(fl['job'], 'v_id') and name.endswith('wrapped'):
        return fl['job'], 'body'
    me = fl.get('self')
    if me is not None and hasattr(me, 'v_id'):
        if name.endswith('co_shutdown'):
            return me, 'shutdown'
        if name.endswith('co_run') or name.endswith('_v_run'):
            return me, 'body'
        return me, 'other'
    return None, 'other'


class VLoop(base_events.BaseEventLoop):

    def __init__(self, horizon=10**6):
        super().__init__()
        self._vt = 0.0
        self._spin_vt = 0.0
        self._spin = 0
        self.horizon = horizon
        self._selector = _VSelector(self)
        self._clock_resolution = 1e-9
        self._ntimers = 0
        self._ntasks = 0
        self.tasks = []
        self.quiescent_cb = None
        self.iteration_cb = None
        self.on_cancel_request = None
        self.on_task_created = None
        self.default_tkey = 0
        self.exc_contexts = []
        self.set_task_factory(self._factory)
        self.set_exception_handler(self._exc_handler)

    # -- BaseEventLoop plumbing
    def _run_once(self):
        if self._vt != self._spin_vt:
            self._spin_vt = self._vt
            if self._spin > max_spin_seen[0]:
                max_spin_seen[0] = self._spin
            self._spin = 0
        self._spin += 1
        if self._spin > SPIN_LIMIT:
            raise Livelock()
        cb = self.iteration_cb
        if cb is not None:
            cb()                # between two batches of callbacks: a consistent point
        super()._run_once()

    def _process_events(self, event_list):
        pass

    def _write_to_self(self):
        pass

    def time(self):
        return self._vt

    def _quiescent(self):
        if self.quiescent_cb is not None:
            self.quiescent_cb()

    def _exc_handler(self, loop, context):
        # diagnostic only
        self.exc_contexts.append({k: repr(v)[:200] for k, v in context.items()})

    # -- tasks
    def _factory(self, loop, coro, **kw):
        owner, kind = _owner_of_coro(coro)
        if owner is not None:
            tkey = owner.v_tkey
        else:
            cur = asyncio.current_task(loop)
            tkey = cur.v_tkey if isinstance(cur, VTask) else self.default_tkey
        task = VTask(coro, vh=self._ntasks, owner=owner, kind=kind, tkey=tkey,
                     vloop=self, loop=loop, **kw)
        self._ntasks += 1
        self.tasks.append(task)
        if self.on_task_created is not None:
            self.on_task_created(task)
        return task

    # -- timers
    def call_at(self, when, callback, *args, context=None):
        self._check_closed()
        n = self._ntimers
        self._ntimers += 1
        cur = asyncio.current_task(self)
        tkey = cur.v_tkey if isinstance(cur, VTask) else self.default_tkey
        # dates are kept on a microsecond grid (see scenario._FakeTime)
        when = round(when, 6)
        if when < self._vt:
            when = self._vt
        timer = VTimer(when, callback, args, self, context)
        timer._tk = (tkey, n)
        heapq.heappush(self._scheduled, timer)
        timer._scheduled = True
        return timer
