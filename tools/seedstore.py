#!/venv/bin/python
"""
tools/seedstore.py <out dir of a sub-agent, e.g. /tmp/seed/out_C05> <property id> [--also C03,...]

For each m* sub-directory: confirm it with tools/seedcheck.py (demo without / with the change,
repository test suite with the change, registered quick check against the changed tree) and
store it as /verif/seeded/<ID>-<m>/ {patch.diff, demo.py, notes.md, meta.json}.
"""
import json
import os
import shutil
import subprocess
import sys

VERIF = os.path.dirname(os.path.dirname(os.path.abspath(__file__)))


def main():
    src = os.path.abspath(sys.argv[1])
    prop = sys.argv[2]
    extra = sys.argv[3:]
    for m in sorted(os.listdir(src)):
        d = os.path.join(src, m)
        if not os.path.exists(os.path.join(d, 'patch.diff')):
            continue
        p = subprocess.run([os.path.join(VERIF, 'tools', 'seedcheck.py'), d, prop] + extra,
                           stdout=subprocess.PIPE, stderr=subprocess.STDOUT)
        txt = p.stdout.decode()
        try:
            result = json.loads(txt[txt.index('{'):])
        except Exception:
            print("seedcheck failed for", d, txt[-500:])
            continue
        dest = os.path.join(VERIF, 'seeded', '%s-%s' % (prop, m))
        os.makedirs(dest, exist_ok=True)
        for name in ('patch.diff', 'demo.py', 'notes.md'):
            if os.path.exists(os.path.join(d, name)):
                shutil.copy(os.path.join(d, name), os.path.join(dest, name))
        notes = open(os.path.join(d, 'notes.md')).read() if os.path.exists(
            os.path.join(d, 'notes.md')) else ''
        result.pop('dir', None)
        result.pop('demo_output', None)
        caught = {k: v['exit'] == 1 for k, v in result.get('checks', {}).items()}
        meta = dict(
            property=prop, origin="independent sub-agent given only the text of the property "
                                  "and a scratch worktree of /repo",
            breaks=prop, needs_to_manifest=notes.strip()[:1500],
            confirmed=dict(
                how="tools/seedcheck.py: scratch worktree of /repo HEAD; demo.py run without "
                    "the change (expect exit 0) and 3 times with it (expect exit 1); "
                    "repository test suite with the change; ./check <ID> --tier quick with "
                    "VERIF_REPO=<scratch worktree>",
                demo_exit_without_change=result.get('demo_without'),
                demo_exits_with_change=result.get('demo_with'),
                repository_tests_with_change=result.get('tests'),
                checks=result.get('checks')),
            caught_by=sorted(k for k, v in caught.items() if v),
            missed_by=sorted(k for k, v in caught.items() if not v))
        with open(os.path.join(dest, 'meta.json'), 'w') as f:
            json.dump(meta, f, indent=1)
        print(dest, 'demo', result.get('demo_without'), result.get('demo_with'),
              '| tests:', result.get('tests'), '| caught by', meta['caught_by'],
              'missed by', meta['missed_by'])


if __name__ == '__main__':
    main()
