#!/venv/bin/python
"""
tools/seedcheck.py <dir with patch.diff [+ demo.py]> <property id> [--tier quick] [--also C05,C08]
                   [--skip-tests]

Confirms a seeded change in a scratch worktree of /repo (removed afterwards): the demo
passes without and fails with the change, the repository's test suite still passes with
it, and reports what the registered check(s) say about the changed tree.
"""
import json
import os
import subprocess
import sys
import tempfile
import time

VERIF = os.path.dirname(os.path.dirname(os.path.abspath(__file__)))


def sh(cmd, cwd=None, env=None, timeout=3600):
    p = subprocess.run(cmd, shell=True, cwd=cwd, env=env, stdout=subprocess.PIPE,
                       stderr=subprocess.STDOUT, timeout=timeout)
    return p.returncode, p.stdout.decode('utf-8', 'replace')


def main():
    args = sys.argv[1:]
    d = os.path.abspath(args[0])
    prop = args[1]
    tier = 'quick'
    also = []
    skip_tests = '--skip-tests' in args
    if '--tier' in args:
        tier = args[args.index('--tier') + 1]
    if '--also' in args:
        also = args[args.index('--also') + 1].split(',')
    wt = tempfile.mkdtemp(prefix='seedwt_', dir='/tmp')
    os.rmdir(wt)
    out = dict(dir=d, property=prop)
    try:
        rc, txt = sh("git -C /repo worktree add -q --detach %s HEAD" % wt)
        assert rc == 0, txt
        env = dict(os.environ, PYTHONPATH=wt, PYTHONDONTWRITEBYTECODE='1')
        demo = os.path.join(d, 'demo.py')
        if os.path.exists(demo):
            rc, txt = sh("/venv/bin/python %s" % demo, cwd=wt, env=env, timeout=600)
            out['demo_without'] = rc
        rc, txt = sh("git apply %s || git apply -3 %s" % (os.path.join(d, 'patch.diff'),
                                                           os.path.join(d, 'patch.diff')),
                     cwd=wt)
        out['applies'] = (rc == 0)
        if rc != 0:
            out['apply_error'] = txt[-500:]
            print(json.dumps(out, indent=1))
            return 1
        if os.path.exists(demo):
            rcs = []
            for _ in range(3):
                rc, txt = sh("/venv/bin/python %s" % demo, cwd=wt, env=env, timeout=600)
                rcs.append(rc)
            out['demo_with'] = rcs
            out['demo_output'] = txt[-600:]
        if not skip_tests:
            t0 = time.time()
            rc, txt = sh("/venv/bin/python -m pytest -q -p no:cacheprovider --timeout=900 "
                         "2>&1 | grep -E ' passed| failed|^FAILED' | tail -5", cwd=wt, env=env)
            out['tests'] = ' ; '.join(txt.strip().splitlines())
            out['tests_s'] = round(time.time() - t0)
        env2 = dict(os.environ, VERIF_REPO=wt, VERIF_EVIDENCE_DIR=wt + '.evidence',
                    VERIF_FINDINGS_DIR=os.path.join(d, 'findings'))
        checks = {}
        for pid in [prop] + also:
            t0 = time.time()
            rc, txt = sh("./check %s --tier %s" % (pid, tier), cwd=VERIF, env=env2)
            lines = [l for l in txt.splitlines()
                     if l.startswith(('VIOLATION', '    C', 'HARNESS'))]
            checks[pid] = dict(exit=rc, s=round(time.time() - t0), lines=lines[:6])
        out['checks'] = checks
        print(json.dumps(out, indent=1))
        return 0
    finally:
        sh("git -C /repo worktree remove --force %s" % wt)
        sh("rm -rf %s.evidence" % wt)


if __name__ == '__main__':
    sys.exit(main())
