#!/venv/bin/python
"""
tools/realcheck.py [N] [seed]

Fidelity check of the virtual-time harness: runs N generated scenarios both on the virtual
loop and on a stock asyncio event loop with real sleeps (1 time unit = 30 ms), and compares
the coarse facts that do not depend on same-instant order: for every job whether it was
entered and how it exited, for every scheduler the verdict, and every event time rounded to
half a unit.  Only scenarios whose virtual trace has no two bodies/timeouts ending at the same
instant are compared (ties are legitimately resolved differently by wall-clock jitter).
"""
import asyncio
import contextlib
import io
import os
import random
import sys

sys.dont_write_bytecode = True
HERE = os.path.dirname(os.path.dirname(os.path.abspath(__file__)))
sys.path.insert(0, HERE)
sys.path.insert(0, os.environ.get('VERIF_REPO', '/repo'))

from hypothesis import given, settings, seed, HealthCheck, Phase     # noqa: E402
from vlib import scenario as sc                                       # noqa: E402
from vlib import strategies as S                                      # noqa: E402
from vlib.trace import Index                                          # noqa: E402

UNIT = 0.08


def real_run(spec):
    """same objects, stock event loop, real time scaled by UNIT"""
    import copy
    scaled = copy.deepcopy(spec)
    for sp, _, _ in sc.iter_specs(scaled):
        if sp['kind'] == 'job':
            if isinstance(sp['d'], (int, float)):
                sp['d'] = sp['d'] * UNIT
            sp['c'] *= UNIT
            sp['sd'] *= UNIT
        else:
            if sp['timeout'] is not None:
                sp['timeout'] *= UNIT
            if sp['sdt'] is not None:
                sp['sdt'] *= UNIT
    loop = asyncio.new_event_loop()
    asyncio.set_event_loop(loop)
    t0 = loop.time()

    class Clock:
        def time(self):
            return (loop.time() - t0) / UNIT
    rec = sc.Recorder(Clock(), False)
    rec.loop = type('L', (), {'time': lambda self: (loop.time() - t0) / UNIT,
                              'create_future': lambda self: loop.create_future()})()
    sc.REC = rec
    registry = {}
    out = io.StringIO()
    outcome = None
    try:
        with contextlib.redirect_stdout(out):
            top = sc.build(scaled, registry)
            try:
                value = top.run()
                outcome = ('return', value)
            except BaseException as exc:
                outcome = ('raise', type(exc).__name__)
    finally:
        for t in asyncio.all_tasks(loop):
            t.cancel()
        with contextlib.redirect_stdout(out):
            try:
                loop.run_until_complete(asyncio.sleep(0.05))
            except BaseException:
                pass
        loop.close()
        asyncio.set_event_loop(None)
        sc.REC = None
    tr = sc.Trace()
    tr.events = rec.events
    tr.outcome = dict(how=outcome[0])
    return tr, outcome


def coarse(ix):
    out = {}
    for ident, sp in ix.specs.items():
        en, ex = ix.enter(ident), ix.exit(ident)
        out[ident] = (None if en is None else round(en['t'] * 4) / 4,
                      None if ex is None else ex['how'],
                      None if ex is None else round(ex['t'] * 4) / 4)
    return out


def tie_free(ix):
    times = [e['t'] for e in ix.events if e['kind'] in ('exit', 'run-exit')]
    times += [ix.t_abs(sp['id']) for sp in ix.scheds() if ix.t_abs(sp['id']) is not None]
    nonzero = [t for t in times]
    return len(nonzero) == len(set(nonzero))


def main():
    n = int(sys.argv[1]) if len(sys.argv) > 1 else 60
    sd = int(sys.argv[2]) if len(sys.argv) > 2 else 1
    prof = S.GENERAL.but(p_wild=0, p_never=30, p_verbose=0, max_jobs=8,
                         durations=((1, 3), (2, 3), (3, 2), (4, 1), (5, 1)),
                         ks=((0, 1),), cs=((0, 3), (1, 1)), sds=((0, 3), (1, 1)),
                         timeouts=((None, 6), (0.5, 1), (1.5, 1), (2.5, 2), (3.5, 1), (4.5, 1)),
                         sdts=((None, 1), (1.5, 2), (2.5, 1)))
    stats = dict(compared=0, skipped_ties=0, agree=0, disagree=0)
    bad = []

    @seed(sd)
    @settings(max_examples=n, database=None, deadline=None, phases=[Phase.generate],
              suppress_health_check=list(HealthCheck))
    @given(S.scenarios(prof))
    def run(spec):
        # make durations pairwise distinct so that fewer cases have ties
        n = 0
        for sp, _, _ in sc.iter_specs(spec):
            if sp['kind'] == 'job' and isinstance(sp['d'], int):
                sp['d'] = sp['d'] + 0.25 * (n % 4)
                n += 1
        vt = sc.run_scenario(spec, run_on=False)
        vix = Index(spec, vt)
        if vt.outcome['how'] not in ('return', 'raise') or not tie_free(vix):
            stats['skipped_ties'] += 1
            return
        stats['compared'] += 1
        a = coarse(vix)
        for attempt in range(3):        # wall-clock jitter under load: best of three
            rt, outcome = real_run(spec)
            b = coarse(Index(spec, rt))
            if a == b and vt.outcome['how'] == outcome[0]:
                break
            stats['retries'] = stats.get('retries', 0) + 1
        if a == b and vt.outcome['how'] == outcome[0]:
            stats['agree'] += 1
        else:
            stats['disagree'] += 1
            bad.append((spec, {k: (a[k], b[k]) for k in a if a[k] != b[k]}))
    run()
    print(stats)
    for spec, diff in bad[:3]:
        print(diff)
        import json
        print(json.dumps(spec))
    return 1 if bad else 0


if __name__ == '__main__':
    sys.exit(main())
