#!/venv/bin/python
"""
tools/coverage_probe.py [cases per property]

Diagnostic (not a check): runs a few hundred generated cases of every property in one process
under the `coverage` module and prints, for the library's modules, the lines that no
generated case reached.  Used to see whether a branch of the anchored functions is out of the
generators' reach.
"""
import os
import sys

sys.dont_write_bytecode = True
HERE = os.path.dirname(os.path.dirname(os.path.abspath(__file__)))
REPO = os.environ.get('VERIF_REPO', '/repo')
sys.path.insert(0, HERE)
sys.path.insert(0, REPO)

import coverage                                                     # noqa: E402

cov = coverage.Coverage(include=[os.path.join(REPO, 'asynciojobs', '*')], data_file=None)
cov.start()

import importlib                                                    # noqa: E402
from hypothesis import given, settings, seed, HealthCheck, Phase    # noqa: E402

n = int(sys.argv[1]) if len(sys.argv) > 1 else 300
props = sys.argv[2].split(',') if len(sys.argv) > 2 else ['C%02d' % i for i in range(1, 21)]
for pid in props:
    prop = importlib.import_module('vlib.props.' + pid.lower())

    @seed(1)
    @settings(max_examples=n, database=None, deadline=None, phases=[Phase.generate],
              suppress_health_check=list(HealthCheck))
    @given(prop.strategy('quick'))
    def run(case):
        prop.evaluate(case)
    run()
cov.stop()
for name in ('purescheduler', 'scheduler', 'job', 'window', 'sequence', 'dotstyle'):
    path = os.path.join(REPO, 'asynciojobs', name + '.py')
    _, statements, _, missing, text = cov.analysis2(path)
    print("%-15s %4d statements, %3d not reached: %s" % (name, len(statements), len(missing),
                                                        text))
