#!/venv/bin/python
"""Regenerate MANIFEST.json from the property modules present under vlib/props."""
import importlib
import json
import os
import sys

HERE = os.path.dirname(os.path.dirname(os.path.abspath(__file__)))
sys.dont_write_bytecode = True
sys.path.insert(0, HERE)
sys.path.insert(0, os.environ.get('VERIF_REPO', '/repo'))

props = [json.loads(l) for l in open(os.path.join(HERE, 'properties.jsonl'))]
checks = []
not_applicable = []
for p in props:
    pid = p['id']
    try:
        mod = importlib.import_module('vlib.props.' + pid.lower())
    except ImportError:
        not_applicable.append(dict(property_id=pid,
                                   reason="check not built yet (work in progress; the "
                                          "technique applies, see DESIGN.md section 4)"))
        continue
    entry = dict(
        property_id=pid,
        quick_cmd="./check %s --tier quick" % pid,
        thorough_cmd="./check %s --tier thorough" % pid,
        evidence_file="evidence/%s.json" % pid,
        replay_cmd_template="./check %s --replay {path}" % pid,
        engine="vlib",
        level_claimed=dict(category=mod.LEVEL, text=mod.LEVEL_TEXT,
                           design_ref=mod.DESIGN_REF),
        level_note=mod.LEVEL_NOTE,
        technique=mod.TECHNIQUE)
    checks.append(entry)

manifest = dict(
    version=1,
    setup_cmd=("/venv/bin/python -c 'import hypothesis' 2>/dev/null || "
               "/venv/bin/python -m pip install -q --no-index --find-links "
               "/opt/veriftools/wheels --target /verif/.deps hypothesis"),
    hooks=dict(
        guard="ASYNCIOJOBS_VERIF",
        enable="no hook is needed: observation is done by verification-side subclasses, the "
               "event loop and its task factory; checks import /repo's working tree as is",
        baseline_off_cmd="cd /repo && /venv/bin/python -m pytest -ra -q -p no:cacheprovider "
                         "--timeout=900 --continue-on-collection-errors",
        source_commits=[],
        add_only=True),
    engines=[dict(
        name="vlib", path="vlib/",
        serves_properties=[c['property_id'] for c in checks],
        kind_free_text="property-based testing: Hypothesis-generated scheduler trees / graphs "
                       "/ API programs, a deterministic virtual-time asyncio loop, trace "
                       "oracles, metamorphic twins, reference models, complete enumeration of "
                       "small spaces")],
    checks=checks,
    not_applicable=not_applicable,
    notes="Every check: ./check <ID> --tier quick|thorough, honours VERIF_SEED, VERIF_TIER, "
          "VERIF_REPO (default /repo), VERIF_JOBS. Exit 0 held / 1 VIOLATION / 2 harness "
          "error. Known findings: known_findings.json (read-only at run time). Order of work "
          "in every check: committed replays (replays/<ID>/*.json: repaired defects, shrunk "
          "cases of seeded changes, corrected false alarms), known findings, the generated "
          "campaign sharded over 16 Hypothesis runs seeded from VERIF_SEED, the enumerated "
          "parts (complete small spaces; for run-time checks a size ladder of flat schedulers "
          "of 9..1025 members and, for C04/C08, a time ladder), then the deterministic part "
          "again under `python -O`. DESIGN.md section 9 and seeded/HISTORY.md record which of "
          "the 100 seeded changes each check reports.")
with open(os.path.join(HERE, 'MANIFEST.json'), 'w') as f:
    json.dump(manifest, f, indent=1)
    f.write("\n")
print("MANIFEST.json: %d checks, %d not built" % (len(checks), len(not_applicable)))
