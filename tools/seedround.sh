#!/bin/sh
# tools/seedround.sh <root, e.g. /tmp/seed4> <baseline /verif worktree, e.g. /tmp/verif_r4> [props...]
# For every <root>/out_<ID>/<name>/patch.diff: what the baseline framework said about the
# changed tree (exit code), then confirm + store with the current framework (tools/seedstore.py).
root=$1; base=$2; shift 2
props=${@:-C01 C02 C03 C04 C05 C06 C07 C08 C09 C10 C11 C12 C13 C14 C15 C16 C17 C18 C19 C20}
for p in $props; do
  for d in $root/out_$p/*/; do
    [ -f $d/patch.diff ] || continue
    wt=$(mktemp -u /tmp/basewt_XXXX)
    git -C /repo worktree add -q --detach $wt HEAD >/dev/null 2>&1
    (git -C $wt apply $d/patch.diff 2>/dev/null || git -C $wt apply -3 $d/patch.diff >/dev/null 2>&1) || echo "$p PATCH DOES NOT APPLY"
    (cd $base && VERIF_REPO=$wt VERIF_EVIDENCE_DIR=$wt.ev VERIF_FINDINGS_DIR=$wt.fi ./check $p >/dev/null 2>&1; echo "$p $(basename $d) baseline-framework exit=$?")
    git -C /repo worktree remove --force $wt; rm -rf $wt.ev $wt.fi
  done
  /verif/tools/seedstore.py $root/out_$p $p 2>&1 | cut -c1-260
done
